//! Executors. Scenarios without timers poll their futures by hand with a
//! flag waker (so that lost wake-ups are observable); scenarios with timers
//! and spawned tasks use a tokio current-thread runtime with a paused clock.

use std::any::Any;
use std::future::Future;
use std::panic::{catch_unwind, AssertUnwindSafe};
use std::pin::Pin;
use std::sync::atomic::{AtomicBool, Ordering};
use std::sync::Arc;
use std::task::{Context, Poll, Wake, Waker};
use crate::common::{Violation, HARNESS_PANIC, SPIN_PANIC};

//------------ Flag waker ------------------------------------------------------

pub struct Flag(pub AtomicBool);

impl Wake for Flag {
    fn wake(self: Arc<Self>) {
        self.0.store(true, Ordering::SeqCst);
    }
    fn wake_by_ref(self: &Arc<Self>) {
        self.0.store(true, Ordering::SeqCst);
    }
}

/// A hand-polled task.
pub struct Task<'a, T> {
    fut: Pin<Box<dyn Future<Output = T> + 'a>>,
    pub flag: Arc<Flag>,
    waker: Waker,
    pub polls: u64,
    pub done: Option<T>,
}

impl<'a, T> Task<'a, T> {
    pub fn new(fut: impl Future<Output = T> + 'a) -> Self {
        let flag = Arc::new(Flag(AtomicBool::new(true)));
        let waker = Waker::from(flag.clone());
        Task { fut: Box::pin(fut), flag, waker, polls: 0, done: None }
    }

    pub fn woken(&self) -> bool {
        self.flag.0.load(Ordering::SeqCst)
    }

    pub fn is_done(&self) -> bool {
        self.done.is_some()
    }

    /// Polls once (clearing the wake flag first). Returns true when finished.
    pub fn poll(&mut self) -> bool {
        if self.done.is_some() {
            return true;
        }
        self.flag.0.store(false, Ordering::SeqCst);
        self.polls += 1;
        let mut cx = Context::from_waker(&self.waker);
        match self.fut.as_mut().poll(&mut cx) {
            Poll::Ready(v) => {
                self.done = Some(v);
                true
            }
            Poll::Pending => false,
        }
    }
}

//------------ Panic handling --------------------------------------------------

pub fn panic_message(p: &Box<dyn Any + Send>) -> String {
    if let Some(s) = p.downcast_ref::<&'static str>() {
        s.to_string()
    } else if let Some(s) = p.downcast_ref::<String>() {
        s.clone()
    } else {
        "<non-string panic payload>".to_string()
    }
}

thread_local! {
    /// Panics observed on this thread since the last `take_panics` (message,
    /// location). Panics inside tokio tasks are swallowed by the runtime, so
    /// this is the only place they surface.
    static PANICS: std::cell::RefCell<Vec<String>> = const { std::cell::RefCell::new(Vec::new()) };
    /// Harness failures (self-checks, or plain panics raised from harness
    /// source files) observed on this thread. Never a verdict: exit 2.
    static HARNESS_FAILS: std::cell::RefCell<Vec<String>> = const { std::cell::RefCell::new(Vec::new()) };
    /// Set while a scenario run executes on this thread.
    static IN_RUN: std::cell::Cell<bool> = const { std::cell::Cell::new(false) };
}

/// Marks the begin / end of a scenario run on this thread (panics outside a
/// run are printed by the hook, they are plain bugs of the driver).
pub fn set_in_run(v: bool) {
    IN_RUN.with(|f| f.set(v));
}

/// Returns and clears the panics recorded on this thread that were raised by
/// the code under test (library or its dependencies) or by the spin sentinel.
pub fn take_panics() -> Vec<String> {
    PANICS.with(|p| std::mem::take(&mut *p.borrow_mut()))
}

/// Returns and clears the harness failures recorded on this thread.
pub fn take_harness_fails() -> Vec<String> {
    HARNESS_FAILS.with(|p| std::mem::take(&mut *p.borrow_mut()))
}

/// Installs a panic hook that stays silent for panics raised inside runs
/// (they are caught and classified). A panic is attributed by where it was
/// raised: files of this crate (relative path `src/...`) are the harness -
/// except for the spin sentinel, which the stubs raise on behalf of the code
/// under test - everything else is the library or one of its dependencies.
pub fn install_quiet_panic_hook() {
    std::panic::set_hook(Box::new(|info| {
        let msg = if let Some(s) = info.payload().downcast_ref::<&'static str>() {
            s.to_string()
        } else if let Some(s) = info.payload().downcast_ref::<String>() {
            s.clone()
        } else {
            String::new()
        };
        let file = info.location().map(|l| l.file().to_string()).unwrap_or_default();
        let loc = info.location().map(|l| format!("{}:{}", l.file(), l.line())).unwrap_or_default();
        let in_harness = file.starts_with("src/") || file.starts_with("sim/src/");
        if !IN_RUN.with(|f| f.get()) {
            eprintln!("harness failure outside a run: {} at {}", msg, loc);
        }
        if msg.starts_with(HARNESS_PANIC) || (in_harness && !msg.starts_with(SPIN_PANIC)) {
            HARNESS_FAILS.with(|p| {
                let mut p = p.borrow_mut();
                if p.len() < 16 {
                    p.push(format!("{} at {}", msg, loc));
                }
            });
        } else {
            PANICS.with(|p| {
                let mut p = p.borrow_mut();
                if p.len() < 16 {
                    p.push(format!("{} at {}", msg, loc));
                }
            });
        }
    }));
}

/// Turns a caught panic payload into a violation (library panic or spin);
/// harness failures are re-raised.
pub fn violation_from_panic(site: &str, p: Box<dyn Any + Send>) -> Violation {
    let msg = panic_message(&p);
    let recorded = take_panics();
    if msg.starts_with(HARNESS_PANIC) || recorded.is_empty() && !msg.starts_with(SPIN_PANIC) {
        // raised by the harness itself (the hook filed it under HARNESS_FAILS)
        std::panic::resume_unwind(p);
    }
    if msg.starts_with(SPIN_PANIC) {
        Violation::new(
            "spin",
            site,
            format!("{}: code under test keeps polling/reading without progress (run-away guard tripped)", site),
        )
    } else {
        let at = recorded.last().cloned().unwrap_or_default();
        Violation::new("panic", site, format!("{}: panicked: {}", site, at))
    }
}

/// Runs `f`, turning panics into violations: the spin sentinel becomes class
/// `spin`, a panic raised by the library or a dependency class `panic`.
/// Harness failures are re-raised.
pub fn guarded<T>(site: &str, f: impl FnOnce() -> Result<T, Violation>) -> Result<T, Violation> {
    let _ = take_panics();
    match catch_unwind(AssertUnwindSafe(f)) {
        Ok(r) => r,
        Err(p) => Err(violation_from_panic(site, p)),
    }
}

//------------ tokio runtime ---------------------------------------------------

/// A fresh single-threaded tokio runtime with a paused clock and no I/O driver.
pub fn paused_runtime() -> tokio::runtime::Runtime {
    tokio::runtime::Builder::new_current_thread()
        .enable_time()
        .start_paused(true)
        .build()
        .expect("tokio runtime")
}
