//! C06 — `rtr-sync`: after any completed exchange the client holds exactly
//! the server's data.
//!
//! Real code: `rtr::server::{Server, Connection, NotifySender}`,
//! `rtr::client::Client` (step/update/serial/reset/apply, version
//! negotiation, timeouts), `rtr::pdu`, `rtr::payload`, `rtr::state`, tokio
//! broadcast + timers on a paused clock. Stubs: simulated transport with
//! latency pumps, listener, `VersionedSource` (ground truth), `ModelTarget`,
//! and `LegacyCache` (a foreign cache capped at version 0 or 1, needed to
//! provoke down-negotiation).

use std::sync::atomic::{AtomicBool, Ordering};
use std::sync::{Arc, Mutex};
use std::time::Duration;
use rpki::rtr::client::Client;
use rpki::rtr::server::{NotifySender, PayloadDiff, PayloadSet, PayloadSource, Server};
use tokio::io::{AsyncReadExt, AsyncWriteExt};
use tokio::time::Instant;
use crate::common::{Counters, RunOut, SimCtx, Violation};
use crate::exec::{paused_runtime, take_panics};
use crate::net::{new_pipe, Pipe, SimListener, SimSocket};
use crate::rtrcodec::{self as wire, WirePdu};
use crate::scenario::{RunKind, Scenario, Tier};
use crate::source::{
    from_payload, mk_state, restrict, state_key, CallKind, DataSet, ModelTarget, StateKey, Universe,
    VersionedSource,
};
use crate::tape::Tape;

pub struct C06;

/// Timing values: mostly plausible, sometimes at or beyond the ranges RFC 8210
/// recommends (the statement asks for the source's values, whatever they are).
pub fn gen_timing(t: &mut Tape) -> (u32, u32, u32) {
    let one = |t: &mut Tape, lo: u32, hi: u32| -> u32 {
        match t.choose(8) {
            0 => 0,
            1 => u32::MAX,
            2 => lo,
            3 => hi,
            4 => hi.saturating_add(1),
            _ => lo + t.choose((hi - lo) as u64 + 1) as u32,
        }
    };
    // The refresh value makes the real client wait that long on the simulated
    // clock. tokio's timer wheel only orders deadlines correctly within 2^36 ms
    // (about 2.18 years) of the runtime's start - measured: with the paused
    // clock a `timeout_at` beyond that point never fires before a farther one -
    // so a whole run has to stay below that: at most about 11 days per wait.
    let refresh = match one(t, 1, 86_400) {
        u32::MAX => 1_000_000,
        r => r,
    };
    (refresh, one(t, 1, 7_200), one(t, 600, 172_800))
}

//------------ Configuration ------------------------------------------------------

#[derive(Clone, Copy, Debug, PartialEq, Eq)]
enum Peer {
    /// The library's own server (supports versions 0..=2).
    Real,
    /// Foreign cache capped at `max`; answers a too-new query with Error
    /// code 4 in its own version and keeps the connection open.
    LegacyError { max: u8 },
    /// Same, but terminates the connection after the Error Report
    /// (RFC 8210 section 7, case 1).
    LegacyErrorClose { max: u8 },
    /// Foreign cache that answers a too-new query directly in its own
    /// version (RFC 8210 section 7, case 2).
    LegacyReply { max: u8 },
    /// A non-conforming cache: it answers a too-new query with Error code 4 in
    /// version `max` and then serves the retried query in a *different*
    /// version. A client must not complete a step on that (whatever it
    /// stored would not be "restricted to the negotiated version").
    LegacyFlipFlop { max: u8 },
    /// A non-conforming cache supporting versions up to `max` (1 or 2): in
    /// about every other response exactly one PDU - the Cache Response, a
    /// prefix PDU, a router key or the End of Data - carries another protocol
    /// version than the rest (same layout, only the version octet differs).
    /// A client must not complete a step on such a response.
    LegacyMixed { max: u8 },
}

impl Peer {
    /// Name without spaces (usable as a key in known_findings.txt).
    fn tag(self) -> String {
        match self {
            Peer::Real => "real".into(),
            Peer::LegacyError { max } => format!("legacy-error-v{}", max),
            Peer::LegacyErrorClose { max } => format!("legacy-error-close-v{}", max),
            Peer::LegacyReply { max } => format!("legacy-reply-v{}", max),
            Peer::LegacyFlipFlop { max } => format!("legacy-flipflop-v{}", max),
            Peer::LegacyMixed { max } => format!("legacy-mixed-v{}", max),
        }
    }
    fn max_version(self) -> u8 {
        match self {
            Peer::Real => 2,
            Peer::LegacyError { max } | Peer::LegacyErrorClose { max } | Peer::LegacyReply { max } | Peer::LegacyFlipFlop { max } | Peer::LegacyMixed { max } => max,
        }
    }
}

#[derive(Clone, Copy, Debug)]
struct NetCfg {
    /// Pipes deliver directly (no pump task, no latency).
    direct: bool,
    /// Socket buffer capacity, server -> client direction.
    cap: usize,
    /// Socket buffer capacity, client -> server direction. Never smaller
    /// than a few queries: with both directions smaller than one PDU the two
    /// peers can block each other in write forever, which no real socket
    /// buffer (kilobytes) allows for 12-byte queries.
    cap_c2s: usize,
    /// Maximum delivery delay in ms (0 = none).
    max_delay_ms: u64,
    /// Chunked delivery (1..=n bytes at a time).
    chunked: bool,
    short_reads: bool,
    short_writes: bool,
    spurious: u64,
    /// 1-in-n chance that the target rejects an update in `apply` (internal
    /// error, nothing applied) / an item in `push_update`; 0 = never.
    target_fail_apply: u64,
    target_fail_push: u64,
}

#[derive(Clone, Copy, Debug, PartialEq, Eq)]
enum InitState {
    None,
    /// A state this source really had, with the matching data.
    Genuine,
    /// A state of a different (earlier) session, with that session's data.
    ForeignSession,
}

//------------ Shared run state ----------------------------------------------------

struct Conn {
    c2s: Pipe,
    s2c: Pipe,
    stall_c2s: Arc<Mutex<Option<Instant>>>,
    stall_s2c: Arc<Mutex<Option<Instant>>>,
    has_pumps: bool,
}

struct Shared {
    ctx: Arc<SimCtx>,
    source: VersionedSource,
    peer: Peer,
    net: NetCfg,
    listener: SimListener,
    conns: Mutex<Vec<Arc<Conn>>>,
    faults_off: AtomicBool,
    violation: Mutex<Option<Violation>>,
    start: Instant,
    counters: Mutex<Counters>,
}

impl Shared {
    fn now_ms(&self) -> u64 {
        (Instant::now() - self.start).as_millis() as u64
    }
    fn fail(&self, v: Violation) {
        let mut slot = self.violation.lock().unwrap();
        if slot.is_none() {
            *slot = Some(v);
        }
    }
    fn failed(&self) -> bool {
        self.violation.lock().unwrap().is_some()
    }
    fn bump(&self, k: &'static str) {
        self.counters.lock().unwrap().bump(k)
    }
}

//------------ Network pump ---------------------------------------------------------

async fn pump(sh: Arc<Shared>, pipe: Pipe, stall: Arc<Mutex<Option<Instant>>>) {
    loop {
        // wait for something to deliver or for the end of the stream
        std::future::poll_fn(|cx| {
            let mut p = pipe.lock().unwrap();
            if !p.outbox.is_empty() || p.writer_closed || p.reader_gone {
                std::task::Poll::Ready(())
            } else {
                p.pump_waker = Some(cx.waker().clone());
                std::task::Poll::Pending
            }
        })
        .await;
        {
            let mut p = pipe.lock().unwrap();
            if p.reader_gone || (p.outbox.is_empty() && p.writer_closed) {
                p.wake_reader();
                return;
            }
        }
        let off = sh.faults_off.load(Ordering::SeqCst);
        let until = *stall.lock().unwrap();
        if let Some(until) = until {
            if !off && until > Instant::now() {
                tokio::time::sleep_until(until).await;
                continue;
            }
        }
        let delay = if off || sh.net.max_delay_ms == 0 {
            0
        } else {
            // mostly short; sometimes long enough to matter for IO_TIMEOUT
            match sh.ctx.choose(8) {
                0 | 1 | 2 => 0,
                3 | 4 | 5 => 1 + sh.ctx.choose(sh.net.max_delay_ms.min(50)),
                _ => 1 + sh.ctx.choose(sh.net.max_delay_ms),
            }
        };
        if delay > 0 {
            tokio::time::sleep(Duration::from_millis(delay)).await;
        } else {
            tokio::task::yield_now().await;
        }
        let mut p = pipe.lock().unwrap();
        let avail = p.outbox.len();
        if avail == 0 {
            continue;
        }
        // the receiver's buffer has a capacity too
        let n = if sh.net.chunked && !off {
            let cap = if sh.ctx.chance(1, 2) { avail.min(16) } else { avail };
            1 + sh.ctx.choose(cap as u64) as usize
        } else {
            avail
        };
        p.deliver(n);
        sh.ctx.progress();
    }
}

/// Opens a connection to the peer and returns the client side socket.
fn connect(sh: &Arc<Shared>) -> (SimSocket, Arc<Conn>) {
    let net = sh.net;
    let off = sh.faults_off.load(Ordering::SeqCst);
    let c2s = new_pipe("c->s", net.direct, net.cap_c2s);
    let s2c = new_pipe("s->c", net.direct, net.cap);
    if !off {
        for p in [&c2s, &s2c] {
            let mut p = p.lock().unwrap();
            p.short_reads = net.short_reads;
            p.short_writes = net.short_writes;
            p.spurious_pending = net.spurious;
        }
    }
    let client_sock = SimSocket { rx: s2c.clone(), tx: c2s.clone(), ctx: sh.ctx.clone(), updates: Default::default() };
    let server_sock = SimSocket { rx: c2s.clone(), tx: s2c.clone(), ctx: sh.ctx.clone(), updates: Default::default() };
    let conn = Arc::new(Conn {
        c2s: c2s.clone(),
        s2c: s2c.clone(),
        stall_c2s: Arc::new(Mutex::new(None)),
        stall_s2c: Arc::new(Mutex::new(None)),
        has_pumps: !net.direct,
    });
    if !net.direct {
        tokio::spawn(pump(sh.clone(), c2s, conn.stall_c2s.clone()));
        tokio::spawn(pump(sh.clone(), s2c, conn.stall_s2c.clone()));
    }
    match sh.peer {
        Peer::Real => sh.listener.push(server_sock),
        _ => {
            tokio::spawn(legacy_cache(sh.clone(), server_sock));
        }
    }
    sh.conns.lock().unwrap().push(conn.clone());
    (client_sock, conn)
}

//------------ LegacyCache ----------------------------------------------------------

async fn read_pdu(sock: &mut SimSocket) -> std::io::Result<Vec<u8>> {
    let mut hdr = [0u8; 8];
    sock.read_exact(&mut hdr).await?;
    let len = u32::from_be_bytes([hdr[4], hdr[5], hdr[6], hdr[7]]) as usize;
    if !(8..=65536).contains(&len) {
        return Err(std::io::Error::new(std::io::ErrorKind::InvalidData, "bad length"));
    }
    let mut all = hdr.to_vec();
    all.resize(len, 0);
    sock.read_exact(&mut all[8..]).await?;
    Ok(all)
}

/// A foreign RTR cache capped at a lower protocol version. ~RFC 6810/8210.
async fn legacy_cache(sh: Arc<Shared>, mut sock: SimSocket) {
    let source = sh.source.clone();
    let max = sh.peer.max_version();
    let mut sent_version_error = false;
    loop {
        let bytes = match read_pdu(&mut sock).await {
            Ok(b) => b,
            Err(_) => return,
        };
        let pdu = match wire::parse_one(&bytes) {
            wire::Parsed::Pdu(p, _) => p,
            wire::Parsed::Incomplete => return,
        };
        let qv = pdu.version();
        let v = if qv > max {
            match sh.peer {
                Peer::LegacyError { .. } | Peer::LegacyErrorClose { .. } | Peer::LegacyFlipFlop { .. } => {
                    sent_version_error = true;
                    let err = WirePdu::Error { v: max, code: 4, pdu: bytes.clone(), text: b"unsupported version".to_vec() };
                    if sock.write_all(&err.encode()).await.is_err() {
                        return;
                    }
                    sh.bump("probe_legacy_version_error_sent");
                    if matches!(sh.peer, Peer::LegacyErrorClose { .. }) {
                        let _ = sock.shutdown().await;
                        return;
                    }
                    continue;
                }
                _ => {
                    sh.bump("probe_legacy_reply_in_lower_version");
                    max
                }
            }
        } else if sent_version_error && matches!(sh.peer, Peer::LegacyFlipFlop { .. }) {
            // changes its mind: serves the retried query in another version
            sh.bump("fault_peer_changed_version_after_negotiation");
            if max == 0 { 1 } else { max - 1 }
        } else {
            qv
        };
        let mut out = Vec::new();
        let gate = |k: &crate::source::Key| k.min_version() <= v;
        match pdu {
            WirePdu::ResetQuery { .. } => {
                if !source.ready() {
                    out.extend(WirePdu::Error { v, code: 2, pdu: vec![], text: b"no data".to_vec() }.encode());
                } else {
                    let (state, mut set) = source.full();
                    let st = state_key(state);
                    out.extend(WirePdu::CacheResponse { v, session: st.0 }.encode());
                    while let Some(p) = set.next() {
                        let (k, prov) = from_payload(&payload_from_ref(p));
                        if gate(&k) {
                            out.extend(crate::source::to_wire(&k, &prov, v, true).encode());
                        }
                    }
                    let t = source.timing();
                    out.extend(
                        WirePdu::EndOfData {
                            v, session: st.0, serial: st.1,
                            timing: if v == 0 { None } else { Some((t.refresh, t.retry, t.expire)) },
                        }
                        .encode(),
                    );
                }
            }
            WirePdu::SerialQuery { session, serial, .. } => {
                if !source.ready() {
                    out.extend(WirePdu::Error { v, code: 2, pdu: vec![], text: b"no data".to_vec() }.encode());
                } else {
                    match source.diff(mk_state((session, serial))) {
                        None => out.extend(WirePdu::CacheReset { v }.encode()),
                        Some((state, mut diff)) => {
                            let st = state_key(state);
                            out.extend(WirePdu::CacheResponse { v, session: st.0 }.encode());
                            while let Some((p, action)) = diff.next() {
                                let (k, prov) = from_payload(&payload_from_ref(p));
                                if gate(&k) {
                                    out.extend(crate::source::to_wire(&k, &prov, v, action.is_announce()).encode());
                                }
                            }
                            let t = source.timing();
                            out.extend(
                                WirePdu::EndOfData {
                                    v, session: st.0, serial: st.1,
                                    timing: if v == 0 { None } else { Some((t.refresh, t.retry, t.expire)) },
                                }
                                .encode(),
                            );
                        }
                    }
                }
            }
            _ => return,
        }
        if matches!(sh.peer, Peer::LegacyMixed { .. }) && sh.ctx.chance(1, 2) {
            // stamp one PDU of the response with another version
            let (pdus, _) = wire::parse_stream(&out);
            let candidates: Vec<(usize, u8)> = pdus
                .iter()
                .filter_map(|(off, p)| {
                    let others: Vec<u8> = match p {
                        WirePdu::CacheResponse { .. } | WirePdu::Ipv4 { .. } | WirePdu::Ipv6 { .. } => (0..=2).filter(|w| *w != v).collect(),
                        WirePdu::RouterKey { .. } | WirePdu::EndOfData { .. } if v >= 1 => (1..=2).filter(|w| *w != v).collect(),
                        _ => Vec::new(),
                    };
                    if others.is_empty() { None } else { Some((*off, others[sh.ctx.choose(others.len() as u64) as usize])) }
                })
                .collect();
            if !candidates.is_empty() {
                let (off, w) = candidates[sh.ctx.choose(candidates.len() as u64) as usize];
                out[off] = w;
                sh.bump("fault_peer_one_pdu_in_other_version");
                sh.ctx.ev(47, off as u64, || format!("non-conforming peer: PDU at offset {} of its v{} response carries version {}", off, v, w));
            }
        }
        if sock.write_all(&out).await.is_err() {
            return;
        }
    }
}

fn payload_from_ref(p: rpki::rtr::payload::PayloadRef<'_>) -> rpki::rtr::payload::Payload {
    use rpki::rtr::payload::{Payload, PayloadRef};
    match p {
        PayloadRef::Origin(o) => Payload::Origin(o),
        PayloadRef::RouterKey(k) => Payload::RouterKey(k.clone()),
        PayloadRef::Aspa(a) => Payload::Aspa(a.clone()),
    }
}

//------------ Router actor ---------------------------------------------------------

struct RouterCfg {
    id: usize,
    initial_version: u8,
    init: InitState,
    steps: u32,
}

/// One completed or failed step, as seen by the oracle.
struct StepWindow {
    /// Client's read offset in the s->c stream at the begin/end of the step.
    read_begin: usize,
    read_end: usize,
    applied_before: usize,
    calls_before: usize,
    state_before: Option<StateKey>,
}

fn check_completed_step(
    sh: &Shared,
    r: &RouterCfg,
    target: &ModelTarget,
    conn: &Conn,
    w: &StepWindow,
    state_after: Option<StateKey>,
    prev_timing: (u32, u32, u32),
) -> Result<(u32, u32, u32), Violation> {
    let who = format!("router {}", r.id);
    if let Some(what) = sh.source.inner.lock().unwrap().state_inc_broken.clone() {
        return Err(Violation::new("state-inc", "", what));
    }
    let t = target.0.lock().unwrap();
    // exactly one update applied by a completed step
    if t.applied.len() != w.applied_before + 1 {
        return Err(Violation::new(
            "apply-count",
            "",
            format!("{}: a completed step applied {} updates to the target", who, t.applied.len() - w.applied_before),
        ));
    }
    let applied = t.applied.last().unwrap();
    check_applied_step(sh, r, &t, &t.data, applied, conn, w, Some(state_after), prev_timing).map(|(timing, _)| timing)
}

/// Judges one completed step: `applied` is the update the target was handed,
/// `data` the target's data right after it. `state_after` is `None` when the
/// client could not be asked (steps completed inside `Client::run()`).
/// Returns the timing handed to the target and the state named in the End of
/// Data.
#[allow(clippy::too_many_arguments)]
fn check_applied_step(
    sh: &Shared,
    r: &RouterCfg,
    t: &crate::source::TargetInner,
    data: &DataSet,
    applied: &crate::source::AppliedUpdate,
    conn: &Conn,
    w: &StepWindow,
    state_after: Option<Option<StateKey>>,
    prev_timing: (u32, u32, u32),
) -> Result<((u32, u32, u32), StateKey), Violation> {
    let who = format!("router {}", r.id);
    // locate the response on the wire (bytes the client has consumed)
    let stream = conn.s2c.lock().unwrap().written.clone();
    if w.read_end > stream.len() || w.read_begin > w.read_end {
        crate::common::harness_fail("step window outside the stream");
    }
    let (pdus, _) = wire::parse_stream(&stream[w.read_begin..w.read_end]);
    let eod_pos = pdus.iter().rposition(|(_, p)| matches!(p, WirePdu::EndOfData { .. }));
    let eod_pos = match eod_pos {
        Some(p) => p,
        None => {
            return Err(Violation::new(
                "no-end-of-data",
                "",
                format!("{}: step completed but the client never consumed an End of Data", who),
            ))
        }
    };
    let (eod_v, eod_state, eod_timing) = match &pdus[eod_pos].1 {
        WirePdu::EndOfData { v, session, serial, timing } => (*v, (*session, *serial), *timing),
        _ => unreachable!(),
    };
    let resp_start = pdus[..eod_pos]
        .iter()
        .rposition(|(_, p)| matches!(p, WirePdu::CacheResponse { .. }))
        .unwrap_or(0);
    // 5. every PDU of the response carries the negotiated version
    let want_v = r.initial_version.min(sh.peer.max_version());
    for (_, p) in &pdus[resp_start..=eod_pos] {
        if p.version() != eod_v {
            return Err(Violation::new(
                "mixed-versions",
                "",
                format!("{}: response mixes protocol versions: {} inside a v{} response", who, wire::describe(p), eod_v),
            ));
        }
    }
    if eod_v != want_v {
        return Err(Violation::new(
            "wrong-version",
            format!("client-v{}-peer-v{}", r.initial_version, sh.peer.max_version()),
            format!(
                "{}: client starting at v{} against a peer supporting up to v{} ended up on v{}",
                who, r.initial_version, sh.peer.max_version(), eod_v
            ),
        ));
    }
    // 1. stored state equals the state named in the End of Data
    if let Some(state_after) = state_after {
        if state_after != Some(eod_state) {
            return Err(Violation::new(
                "state-mismatch",
                "",
                format!("{}: End of Data names {:04x}/#{} but client.state() is {:?}", who, eod_state.0, eod_state.1, state_after),
            ));
        }
    }
    let set = match sh.source.set_at(eod_state) {
        Some(s) => s,
        None => {
            return Err(Violation::new(
                "unknown-state",
                "",
                format!("{}: End of Data names {:04x}/#{} which the source never reported", who, eod_state.0, eod_state.1),
            ))
        }
    };
    // 2. data handed to the target == the source's set for that state,
    //    restricted to what the negotiated version carries
    let want: DataSet = restrict(&set, eod_v);
    if *data != want {
        let abbr = |(k, v): (&crate::source::Key, &Vec<u32>)| if v.len() > 8 { format!("({:?}, {:?}.. {} providers)", k, &v[..6], v.len()) } else { format!("({:?}, {:?})", k, v) };
        let missing: Vec<String> = want.iter().filter(|(k, v)| data.get(*k) != Some(*v)).take(4).map(abbr).collect();
        let extra: Vec<String> = data.iter().filter(|(k, v)| want.get(*k) != Some(*v)).take(4).map(abbr).collect();
        return Err(Violation::new(
            "data-mismatch",
            if applied.reset { "after-reset" } else { "after-diff" },
            format!(
                "{}: after a completed {} step to {:04x}/#{} (v{}) the client holds {} items, the source's set has {}; missing/changed: {:?}; unexpected: {:?}",
                who, if applied.reset { "reset" } else { "serial" }, eod_state.0, eod_state.1, eod_v,
                data.len(), want.len(), missing, extra
            ),
        ));
    }
    // 2b. the same data kept as a hash set of the library's own payload values:
    //     whenever an item was looked up, "an equal element exists" (Eq) and
    //     "the hash lookup finds it" must have agreed - otherwise a target built
    //     on HashSet<Payload> silently keeps or drops items. (Whether two
    //     spellings of an origin are equal is the library's business; only a
    //     disagreement between Eq and Hash is flagged.)
    if let Some(what) = &t.identity_law_broken {
        return Err(Violation::new(
            "payload-identity",
            "",
            format!("{}: Eq, Hash and Ord of the payload types disagree: {}", who, what),
        ));
    }
    if let Some(what) = &t.lib_vec_mismatch {
        return Err(Violation::new("vec-update", "", format!("{}: {}", who, what)));
    }
    if state_after.is_some() && t.shadow_as_dataset() != *data {
        sh.bump("probe_hashset_target_differs_from_value_model");
    }
    // 3. exactness of diffs: probes only
    if applied.duplicate_announce > 0 {
        sh.bump("probe_duplicate_announce");
    }
    if applied.unknown_withdraw > 0 {
        sh.bump("probe_unknown_withdraw");
    }
    // 4. timing
    if eod_v >= 1 {
        let wire_t = eod_timing.unwrap_or((0, 0, 0));
        if applied.timing != wire_t {
            return Err(Violation::new(
                "timing-mismatch",
                "applied-vs-wire",
                format!("{}: End of Data carries timing {:?} but the target was given {:?}", who, wire_t, applied.timing),
            ));
        }
        let calls = sh.source.inner.lock().unwrap();
        let reported = calls.calls[w.calls_before..]
            .iter()
            .any(|c| matches!(c.kind, CallKind::Timing(t) if t == wire_t));
        if !reported {
            return Err(Violation::new(
                "timing-mismatch",
                "wire-vs-source",
                format!("{}: timing {:?} was never reported by the source during this step", who, wire_t),
            ));
        }
    } else if applied.timing != prev_timing {
        // The statement constrains timing only from version 1 on.
        sh.bump("probe_v0_timing_changed");
    }
    // probes
    if applied.reset && w.state_before.is_some() {
        sh.bump("probe_cache_reset_fallback_or_restart");
    }
    if !applied.reset && applied.items.is_empty() {
        sh.bump("probe_empty_diff");
    }
    if !applied.reset && !applied.items.is_empty() {
        sh.bump("probe_nonempty_diff_applied");
    }
    if let (Some(b), a) = (w.state_before, eod_state) {
        if b.0 == a.0 && a.1 < b.1 {
            sh.bump("probe_serial_wrapped");
        }
    }
    if pdus[..resp_start].iter().any(|(_, p)| matches!(p, WirePdu::Error { code: 4, .. })) {
        sh.bump("probe_version_error_renegotiation");
    }
    if pdus[..resp_start].iter().any(|(_, p)| matches!(p, WirePdu::SerialNotify { .. })) {
        sh.bump("probe_serial_notify_consumed");
    }
    Ok((applied.timing, eod_state))
}

async fn router(sh: Arc<Shared>, r: RouterCfg) {
    let ctx = sh.ctx.clone();
    let target = ModelTarget::default();
    if !sh.faults_off.load(Ordering::SeqCst) {
        let mut t = target.0.lock().unwrap();
        t.fail_apply = sh.net.target_fail_apply;
        t.fail_push = sh.net.target_fail_push;
        t.ctx = Some(ctx.clone());
    }
    // initial state
    let mut state: Option<StateKey> = None;
    let want_v = r.initial_version.min(sh.peer.max_version());
    match r.init {
        InitState::None => {}
        InitState::Genuine => {
            let pick = {
                let i = sh.source.inner.lock().unwrap();
                let keys: Vec<StateKey> = i.history.keys().copied().filter(|k| k.0 == i.session).collect();
                if keys.is_empty() { None } else { Some(keys[ctx.choose(keys.len() as u64) as usize]) }
            };
            if let Some(k) = pick {
                let set = sh.source.set_at(k).unwrap();
                target.0.lock().unwrap().seed(restrict(&set, want_v), || ctx.chance(1, 2));
                state = Some(k);
            }
        }
        InitState::ForeignSession => {
            let mut i = sh.source.inner.lock().unwrap();
            let mut foreign = i.session.wrapping_add(1 + ctx.choose(100) as u16);
            while i.used_sessions.contains(&foreign) {
                foreign = foreign.wrapping_add(1);
            }
            // reserve it so that no later restart re-uses this session id
            i.used_sessions.push(foreign);
            let k = (foreign, i.serial.wrapping_sub(ctx.choose(3) as u32));
            target.0.lock().unwrap().seed(restrict(&i.current, want_v), || ctx.chance(1, 2));
            state = Some(k);
        }
    }
    ctx.ev(30, r.id as u64, || format!("router {} starts: v{} init={:?} state={:?}", r.id, r.initial_version, r.init, state));

    let mut initial_version = r.initial_version;
    let mut prev_timing = (3600u32, 600u32, 7200u32);
    let mut steps_left = r.steps;
    let mut completed = 0u32;
    let mut rejected_seen = 0u64;
    'outer: while steps_left > 0 && !sh.failed() {
        let (sock, conn) = connect(&sh);
        ctx.ev(31, r.id as u64, || format!("router {} connects (state {:?}, v{})", r.id, state, initial_version));
        let mut client = if initial_version == 2 && ctx.chance(1, 2) {
            Client::new(sock, target.clone(), state.map(mk_state))
        } else {
            Client::with_initial_version(initial_version, sock, target.clone(), state.map(mk_state))
        };
        let r_eff = RouterCfg { id: r.id, initial_version, init: r.init, steps: 0 };
        while steps_left > 0 && !sh.failed() {
            steps_left -= 1;
            let w = StepWindow {
                read_begin: conn.s2c.lock().unwrap().n_read as usize,
                read_end: 0,
                applied_before: target.0.lock().unwrap().applied.len(),
                calls_before: sh.source.inner.lock().unwrap().calls.len(),
                state_before: client.state().map(state_key),
            };
            // One time in six the router hands control to `Client::run()`, the
            // library's own loop around `step()`, until a few updates have been
            // applied, a simulated deadline passes (the future is dropped, which
            // the documentation names as the way to stop it) or it returns by
            // itself. The steps completed inside are judged one by one from
            // marks the target takes at every `apply`.
            if ctx.chance(1, 6) {
                sh.bump("probe_client_run_used");
                let goal = 1 + ctx.choose(3) as usize;
                let dur = [120u64, 7200, 3 * 86400, 40 * 86400][ctx.choose(4) as usize];
                let wake = Arc::new(tokio::sync::Notify::new());
                {
                    let mut t = target.0.lock().unwrap();
                    let (c, s, wk) = (conn.clone(), sh.clone(), wake.clone());
                    t.marks.clear();
                    t.mark_fn = Some(Box::new(move || {
                        wk.notify_one();
                        let n_read = c.s2c.lock().unwrap().n_read as usize;
                        let calls = s.source.inner.lock().unwrap().calls.len();
                        (n_read, calls)
                    }));
                }
                // Some(res): run() returned; None + idle: stopped after `goal`
                // applies; None + !idle: stopped at the deadline
                let (outcome, idle) = {
                    let target2 = target.clone();
                    let ab = w.applied_before;
                    let stop = async move {
                        loop {
                            wake.notified().await;
                            if target2.0.lock().unwrap().applied.len() >= ab + goal {
                                break;
                            }
                        }
                    };
                    let bounded = tokio::time::timeout(Duration::from_secs(dur), stop);
                    match futures_util::future::select(Box::pin(client.run()), Box::pin(bounded)).await {
                        futures_util::future::Either::Left((res, _)) => (Some(res), false),
                        futures_util::future::Either::Right((stopped, _)) => (None, stopped.is_ok()),
                    }
                };
                let state_after = client.state().map(state_key);
                let marks = {
                    let mut t = target.0.lock().unwrap();
                    t.mark_fn = None;
                    std::mem::take(&mut t.marks)
                };
                ctx.ev(36, marks.len() as u64, || {
                    format!(
                        "router {} Client::run() {} at t={}ms after {} applied updates (state {:?})",
                        r.id,
                        match &outcome {
                            Some(Ok(())) => "returned Ok".to_string(),
                            Some(Err(e)) => format!("returned {:?} {}", e.kind(), e),
                            None if idle => "stopped by its caller while idle".to_string(),
                            None => "stopped by its caller at a deadline".to_string(),
                        },
                        sh.now_ms(), marks.len(), state_after
                    )
                });
                let mut prev_end = w.read_begin;
                let mut prev_calls = w.calls_before;
                let mut prev_state = w.state_before;
                let mut verdict = None;
                {
                    let t = target.0.lock().unwrap();
                    if t.applied.len() != w.applied_before + marks.len() {
                        crate::common::harness_fail("apply marks and applied updates disagree");
                    }
                    for (i, (n_read, calls, data)) in marks.iter().enumerate() {
                        let wi = StepWindow {
                            read_begin: prev_end,
                            read_end: *n_read,
                            applied_before: w.applied_before + i,
                            calls_before: prev_calls,
                            state_before: prev_state,
                        };
                        match check_applied_step(&sh, &r_eff, &t, data, &t.applied[w.applied_before + i], &conn, &wi, None, prev_timing) {
                            Ok((tm, eod)) => {
                                prev_timing = tm;
                                prev_end = *n_read;
                                prev_calls = *calls;
                                prev_state = Some(eod);
                                completed += 1;
                                sh.bump("steps_completed");
                                sh.bump("steps_completed_inside_client_run");
                            }
                            Err(v) => {
                                verdict = Some(v);
                                break;
                            }
                        }
                    }
                }
                if let Some(v) = verdict {
                    sh.fail(v);
                    break 'outer;
                }
                steps_left = steps_left.saturating_sub(marks.len() as u32);
                let (rej_a, rej_p) = { let t = target.0.lock().unwrap(); (t.rejected_applies, t.rejected_pushes) };
                let target_rejected = rej_a + rej_p > rejected_seen;
                if target_rejected {
                    rejected_seen = rej_a + rej_p;
                    sh.bump("fault_target_rejected_update");
                }
                // The state the client names afterwards: while it sits idle
                // between two steps it is the state of the last End of Data; a
                // step that did not complete may have dropped the state (Cache
                // Reset) but cannot have moved it on - unless the target refused
                // the update (observation iv, outside the statement).
                let held = prev_state;
                let state_ok = if idle {
                    state_after == held
                } else {
                    target_rejected || state_after.is_none() || state_after == held
                };
                if !state_ok {
                    sh.fail(Violation::new(
                        "state-mismatch",
                        "after-run",
                        format!(
                            "router {}: after Client::run() the target holds the data of {:?} but client.state() is {:?}",
                            r.id, held, state_after
                        ),
                    ));
                    break 'outer;
                }
                match &outcome {
                    Some(Ok(())) => sh.bump("probe_client_run_returned_ok_on_eof"),
                    Some(Err(_)) => sh.bump("probe_client_run_returned_err"),
                    None if idle => sh.bump("probe_client_run_stopped_idle"),
                    None => sh.bump("probe_client_run_stopped_at_deadline"),
                }
                // always reconnect afterwards (a dropped step is not resumed)
                state = if ctx.chance(1, 4) {
                    target.0.lock().unwrap().seed(DataSet::new(), || false);
                    None
                } else if target_rejected {
                    held
                } else {
                    state_after
                };
                if outcome.is_some() && marks.is_empty()
                    && matches!(sh.peer, Peer::LegacyErrorClose { .. }) && initial_version > sh.peer.max_version()
                {
                    initial_version -= 1;
                }
                drop(client);
                continue 'outer;
            }
            // mostly step(); sometimes the public reset() + apply() pair
            // ("forced resync"), which must leave the client in the same
            // relation to the source as any other completed step
            let forced = ctx.chance(1, 8);
            let res = if forced {
                sh.bump("probe_forced_reset_via_public_api");
                match client.reset().await {
                    Ok(update) => client.apply(update).await,
                    Err(e) => Err(e),
                }
            } else if ctx.chance(1, 8) {
                // the public update() + apply() pair instead of step()
                match client.update().await {
                    Ok(update) => client.apply(update).await,
                    Err(e) => Err(e),
                }
            } else {
                client.step().await
            };
            let w = StepWindow { read_end: conn.s2c.lock().unwrap().n_read as usize, ..w };
            let state_after = client.state().map(state_key);
            match res {
                Ok(()) => {
                    completed += 1;
                    sh.bump("steps_completed");
                    ctx.ev(32, state_after.map(|s| s.1 as u64).unwrap_or(0), || {
                        format!("router {} step OK at t={}ms -> state {:?}", r.id, sh.now_ms(), state_after)
                    });
                    match check_completed_step(&sh, &r_eff, &target, &conn, &w, state_after, prev_timing) {
                        Ok(t) => prev_timing = t,
                        Err(v) => {
                            sh.fail(v);
                            break 'outer;
                        }
                    }
                }
                Err(err) => {
                    sh.bump("steps_failed");
                    let msg = err.to_string();
                    ctx.ev(33, 0, || format!("router {} step FAILED at t={}ms: {:?} {} (state {:?})", r.id, sh.now_ms(), err.kind(), msg, state_after));
                    let (rej_a, rej_p) = { let t = target.0.lock().unwrap(); (t.rejected_applies, t.rejected_pushes) };
                    let mut target_rejected = false;
                    if rej_a + rej_p > rejected_seen {
                        rejected_seen = rej_a + rej_p;
                        target_rejected = true;
                        sh.bump("fault_target_rejected_update");
                        if state_after != w.state_before {
                            // Client::serial()/reset() store the End-of-Data
                            // state before apply() runs, so after a rejected
                            // update state() names data the target does not
                            // hold. Outside C06 (DESIGN 10.2 observation iv):
                            // counted, not alarmed.
                            sh.bump("probe_state_advanced_although_target_rejected");
                        }
                    } else if msg.contains("unexpected PDU 0") {
                        sh.bump("probe_notify_overtook_response");
                    } else if err.kind() == std::io::ErrorKind::TimedOut {
                        sh.bump("probe_io_timeout");
                    } else if msg.contains("server reported error 2") {
                        sh.bump("probe_no_data_available");
                    } else if msg.contains("unexpected PDU") || msg.contains("version") || err.kind() == std::io::ErrorKind::InvalidData {
                        sh.bump("probe_step_failed_protocol");
                        if std::env::var("SIM_DEBUG_PROTOCOL").is_ok() {
                            eprintln!("protocol failure: {:?} {}", err.kind(), msg);
                        }
                    } else {
                        sh.bump("probe_step_failed_transport");
                    }
                    // a failed step must not have touched the target
                    if target.0.lock().unwrap().applied.len() != w.applied_before {
                        sh.fail(Violation::new(
                            "failed-step-applied",
                            "",
                            format!("router {}: step failed with {:?} but an update was applied to the target", r.id, err.kind()),
                        ));
                        break 'outer;
                    }
                    // Reconnect, reusing whatever the client says its state is
                    // (documented use of Client::state()), or from scratch.
                    state = if ctx.chance(1, 4) {
                        target.0.lock().unwrap().seed(DataSet::new(), || false);
                        None
                    } else if target_rejected {
                        // the caller knows its target refused the update: the
                        // data it holds is still that of the state it had
                        // before this step
                        w.state_before
                    } else {
                        state_after
                    };
                    if matches!(sh.peer, Peer::LegacyErrorClose { .. }) && initial_version > sh.peer.max_version() {
                        // RFC 8210 section 7 case 1: retry with a lower version
                        initial_version -= 1;
                    }
                    drop(client);
                    // optional pause before reconnecting
                    let pause = ctx.choose(4);
                    if pause > 0 {
                        tokio::time::sleep(Duration::from_millis(pause * 500)).await;
                    }
                    continue 'outer;
                }
            }
        }
        break;
    }
    if completed > 0 {
        sh.bump("routers_with_completed_step");
    }
}

//------------ Chaos: source operations and transport faults -------------------------

/// Error kinds a transport (TCP, TLS, a proxy) may report from one read or
/// write call. The call fails once; later calls work again.
const ERR_KINDS: [std::io::ErrorKind; 7] = [
    std::io::ErrorKind::ConnectionReset,
    std::io::ErrorKind::BrokenPipe,
    std::io::ErrorKind::Interrupted,
    std::io::ErrorKind::TimedOut,
    std::io::ErrorKind::Other,
    std::io::ErrorKind::ConnectionAborted,
    std::io::ErrorKind::UnexpectedEof,
];

async fn chaos(sh: Arc<Shared>, uni: Arc<Universe>, mut notify: Option<NotifySender>, ops: u32, fault_kinds: [bool; 10]) {
    let ctx = sh.ctx.clone();
    for _ in 0..ops {
        if sh.failed() {
            return;
        }
        // when?
        let wait_ms = match ctx.choose(10) {
            0 => 0,
            1 | 2 => 1 + ctx.choose(20),
            3 | 4 => 1 + ctx.choose(2_000),
            5 => 9_000 + ctx.choose(3_000),
            6 => 1 + ctx.choose(60_000),
            7 => 1 + ctx.choose(600_000),
            _ => 1 + ctx.choose(200),
        };
        if wait_ms == 0 {
            tokio::task::yield_now().await;
        } else {
            tokio::time::sleep(Duration::from_millis(wait_ms)).await;
        }
        // what?
        let op = ctx.weighted(&[6, 2, 1, 1, 1, 3, 1]);
        match op {
            0 => {
                // update (+ notify / forgotten notify / double notify)
                let mut set = (*sh.source.inner.lock().unwrap().current).clone();
                uni.mutate(&mut set, &mut ctx.tape.lock().unwrap());
                let mid = sh.conns.lock().unwrap().iter().any(|c| {
                    let p = c.s2c.lock().unwrap();
                    !p.outbox.is_empty() || !p.inbox.is_empty() || p.writer_waker.is_some()
                });
                let st = sh.source.update(set);
                sh.bump(if mid { "fault_update_mid_exchange" } else { "fault_update" });
                ctx.ev(40, st.1 as u64, || format!("t={}ms source update -> {:04x}/#{}", sh.now_ms(), st.0, st.1));
                if let Some(n) = notify.as_mut() {
                    match ctx.choose(4) {
                        0 => {}
                        1 => {
                            n.notify();
                            n.notify();
                            n.notify();
                            sh.bump("fault_notify_burst");
                        }
                        _ => n.notify(),
                    }
                }
            }
            1 => {
                if let Some(n) = notify.as_mut() {
                    n.notify();
                    sh.bump("fault_notify_without_change");
                    ctx.ev(41, 0, || format!("t={}ms notify without change", sh.now_ms()));
                }
            }
            2 => {
                // restart: new session, history gone
                let (session, serial, set) = {
                    let mut t = ctx.tape.lock().unwrap();
                    let used = sh.source.inner.lock().unwrap().used_sessions.clone();
                    let mut s = t.bits(16) as u16;
                    while used.contains(&s) {
                        s = s.wrapping_add(1);
                    }
                    let serial = match t.choose(3) { 0 => 0, 1 => u32::MAX - t.choose(3) as u32, _ => t.bits(32) as u32 };
                    (s, serial, uni.random_set(&mut t))
                };
                let st = sh.source.restart(session, serial, set);
                sh.bump("fault_server_restart");
                ctx.ev(42, st.1 as u64, || format!("t={}ms source restart -> {:04x}/#{}", sh.now_ms(), st.0, st.1));
                if let Some(n) = notify.as_mut() {
                    if ctx.chance(1, 2) {
                        n.notify();
                    }
                }
            }
            3 => {
                let mut i = sh.source.inner.lock().unwrap();
                i.ready = !i.ready;
                let r = i.ready;
                drop(i);
                sh.bump("fault_source_ready_toggled");
                ctx.ev(43, r as u64, || format!("t={}ms source ready={}", sh.now_ms(), r));
            }
            4 => {
                let mut i = sh.source.inner.lock().unwrap();
                let mut t = ctx.tape.lock().unwrap();
                i.timing = gen_timing(&mut t);
                let tm = i.timing;
                drop(t);
                drop(i);
                sh.bump("fault_timing_changed");
                ctx.ev(44, tm.0 as u64, || format!("t={}ms source timing={:?}", sh.now_ms(), tm));
            }
            5 => {
                // transport fault on a live connection
                let conn = {
                    let conns = sh.conns.lock().unwrap();
                    let live: Vec<_> = conns
                        .iter()
                        .filter(|c| {
                            let a = c.c2s.lock().unwrap();
                            let b = c.s2c.lock().unwrap();
                            !a.writer_closed && !b.writer_closed && !a.reader_gone && !b.reader_gone
                        })
                        .cloned()
                        .collect();
                    if live.is_empty() { None } else { Some(live[ctx.choose(live.len() as u64) as usize].clone()) }
                };
                let conn = match conn {
                    Some(c) => c,
                    None => continue,
                };
                let enabled: Vec<usize> = (0..10).filter(|k| fault_kinds[*k]).collect();
                if enabled.is_empty() {
                    continue;
                }
                let in_flight = {
                    let a = conn.c2s.lock().unwrap();
                    let b = conn.s2c.lock().unwrap();
                    a.in_flight() + b.in_flight() > 0
                };
                if in_flight {
                    sh.bump("fault_landed_in_flight");
                }
                match enabled[ctx.choose(enabled.len() as u64) as usize] {
                    0 => {
                        // disconnect both directions
                        conn.c2s.lock().unwrap().close_writer();
                        conn.s2c.lock().unwrap().close_writer();
                        sh.bump("fault_disconnect");
                        ctx.ev(45, 0, || format!("t={}ms FAULT disconnect (in flight: {})", sh.now_ms(), in_flight));
                    }
                    1 => {
                        // server->client stream ends (bytes in flight are lost)
                        let mut p = conn.s2c.lock().unwrap();
                        let lost = p.outbox.len();
                        p.n_dropped += lost as u64;
                        p.outbox.clear();
                        p.close_writer();
                        sh.bump("fault_eof_s2c_with_loss");
                        ctx.ev(45, 1, || format!("t={}ms FAULT s->c cut, {} bytes lost", sh.now_ms(), lost));
                    }
                    8 => {
                        // one write call of the SERVER fails (the socket works
                        // again afterwards); any error kind a transport may report
                        let kind = ERR_KINDS[ctx.choose(ERR_KINDS.len() as u64) as usize];
                        conn.s2c.lock().unwrap().write_err = Some(kind);
                        conn.s2c.lock().unwrap().wake_writer();
                        sh.bump("fault_write_error_server");
                        ctx.ev(45, 8, || format!("t={}ms FAULT server write error {:?} (in flight: {})", sh.now_ms(), kind, in_flight));
                    }
                    9 => {
                        let kind = ERR_KINDS[ctx.choose(ERR_KINDS.len() as u64) as usize];
                        conn.c2s.lock().unwrap().read_err = Some(kind);
                        conn.c2s.lock().unwrap().wake_reader();
                        sh.bump("fault_read_error_server");
                        ctx.ev(45, 9, || format!("t={}ms FAULT server read error {:?}", sh.now_ms(), kind));
                    }
                    2 => {
                        conn.s2c.lock().unwrap().read_err = Some(ERR_KINDS[ctx.choose(ERR_KINDS.len() as u64) as usize]);
                        conn.s2c.lock().unwrap().wake_reader();
                        sh.bump("fault_read_error_client");
                        ctx.ev(45, 2, || format!("t={}ms FAULT client read error", sh.now_ms()));
                    }
                    3 => {
                        conn.c2s.lock().unwrap().write_err = Some(ERR_KINDS[ctx.choose(ERR_KINDS.len() as u64) as usize]);
                        conn.c2s.lock().unwrap().wake_writer();
                        sh.bump("fault_write_error_client");
                        ctx.ev(45, 3, || format!("t={}ms FAULT client write error", sh.now_ms()));
                    }
                    4 if conn.has_pumps => {
                        let d = 1_000 + ctx.choose(30_000);
                        *conn.stall_s2c.lock().unwrap() = Some(Instant::now() + Duration::from_millis(d));
                        sh.bump(if d > 10_000 { "fault_long_stall_s2c" } else { "fault_stall_s2c" });
                        ctx.ev(45, 4, || format!("t={}ms FAULT s->c stalls for {}ms", sh.now_ms(), d));
                    }
                    5 if conn.has_pumps => {
                        let d = 1_000 + ctx.choose(30_000);
                        *conn.stall_c2s.lock().unwrap() = Some(Instant::now() + Duration::from_millis(d));
                        sh.bump(if d > 10_000 { "fault_long_stall_c2s" } else { "fault_stall_c2s" });
                        ctx.ev(45, 5, || format!("t={}ms FAULT c->s stalls for {}ms", sh.now_ms(), d));
                    }
                    6 => {
                        // client->server stream ends, bytes in flight are lost
                        // (the query never arrives; the server sees EOF)
                        let mut p = conn.c2s.lock().unwrap();
                        let lost = p.outbox.len();
                        p.n_dropped += lost as u64;
                        p.outbox.clear();
                        p.close_writer();
                        sh.bump(if lost > 0 { "fault_eof_c2s_with_loss" } else { "fault_eof_c2s" });
                        ctx.ev(45, 6, || format!("t={}ms FAULT c->s cut, {} bytes lost", sh.now_ms(), lost));
                    }
                    7 => {
                        // half-close: the server sees EOF on its read side while
                        // it may still be writing a response
                        conn.c2s.lock().unwrap().close_writer();
                        sh.bump("fault_half_close_c2s");
                        ctx.ev(45, 7, || format!("t={}ms FAULT c->s half-closed (in flight: {})", sh.now_ms(), in_flight));
                    }
                    _ => {}
                }
            }
            _ => {
                // clock jump
                let d = 1 + ctx.choose(20_000);
                tokio::time::advance(Duration::from_millis(d)).await;
                sh.bump("fault_clock_jump");
                ctx.ev(46, d, || format!("t={}ms clock jumped by {}ms", sh.now_ms(), d));
            }
        }
    }
}

//------------ The run ---------------------------------------------------------------

impl C06 {
    async fn run_async(&self, kind: RunKind, tier: Tier, ctx: Arc<SimCtx>, out: &mut RunOut) -> Result<Counters, Violation> {
        let deep = tier == Tier::Thorough;
        let start = Instant::now();
        // ---- swarm configuration ---------------------------------------------
        let (peer, net, uni, source, routers, ops, fault_kinds) = {
            let mut t = ctx.tape.lock().unwrap();
            let sweep = match kind { RunKind::Sweep(i) => Some(i), RunKind::Random => None };
            let peer = match sweep.map(|i| (i / 3) % 7).unwrap_or_else(|| t.weighted(&[12, 1, 1, 1, 1, 1, 1, 1, 1]) as u64) {
                7 => Peer::LegacyFlipFlop { max: t.choose(2) as u8 },
                8 => Peer::LegacyMixed { max: 1 + t.choose(2) as u8 },
                0 => Peer::Real,
                1 => Peer::LegacyError { max: 0 },
                2 => Peer::LegacyError { max: 1 },
                3 => Peer::LegacyReply { max: 0 },
                4 => Peer::LegacyReply { max: 1 },
                5 => Peer::LegacyErrorClose { max: 0 },
                _ => Peer::LegacyErrorClose { max: 1 },
            };
            let faulty = sweep.is_none() && t.chance(2, 3);
            let direct = sweep.is_some() || t.chance(1, 3);
            let net = NetCfg {
                direct,
                cap: if sweep.is_some() { usize::MAX } else { *t.pick(&[usize::MAX, 8, 24, 64, 1000]) },
                cap_c2s: if sweep.is_some() { usize::MAX } else { *t.pick(&[usize::MAX, 256, 1000]) },
                max_delay_ms: if direct { 0 } else { *t.pick(&[0u64, 5, 50, 500, 4000]) },
                chunked: !direct && t.chance(2, 3),
                short_reads: faulty && t.chance(1, 2),
                short_writes: faulty && t.chance(1, 2),
                spurious: if faulty && t.chance(1, 4) { 5 } else { 0 },
                target_fail_apply: if faulty && t.chance(1, 5) { 4 } else { 0 },
                target_fail_push: if faulty && t.chance(1, 8) { 12 } else { 0 },
            };
            let uni = Universe::gen(&mut t);
            let mut net = net;
            if uni.has_oversized() && net.cap < 1000 {
                net.cap = 1000;
            }
            let set = uni.random_set(&mut t);
            let window = t.choose(if deep { 12 } else { 5 }) as usize;
            let session = t.bits(16) as u16;
            let serial = match t.choose(4) {
                0 => 0,
                1 => u32::MAX - t.choose(3) as u32,
                2 => t.choose(1000) as u32,
                _ => t.bits(32) as u32,
            };
            let source = VersionedSource::new(&ctx, session, serial, set, window);
            {
                let mut i = source.inner.lock().unwrap();
                i.shuffle = t.chance(1, 2);
                i.aspa_withdraw_first = t.chance(1, 2);
                i.timing = gen_timing(&mut t);
                if t.chance(1, 5) {
                    i.decline_diff = 3;
                }
                i.chained_diff = t.chance(1, 3);
                i.implicit_max_len = t.chance(1, 3);
            }
            let n_routers = if sweep.is_some() { 1 } else if deep { 1 + t.weighted(&[3, 2, 1, 1, 1]) } else { 1 + t.weighted(&[3, 2, 1]) };
            let mut routers = Vec::new();
            for id in 0..n_routers {
                let (initial_version, init) = match sweep {
                    Some(i) => (
                        (i % 3) as u8,
                        match (i / 21) % 3 { 0 => InitState::None, 1 => InitState::Genuine, _ => InitState::ForeignSession },
                    ),
                    None => (
                        t.choose(3) as u8,
                        match t.choose(4) { 0 => InitState::None, 3 => InitState::ForeignSession, _ => InitState::Genuine },
                    ),
                };
                let steps = if sweep.is_some() { 4 } else { 1 + t.choose(if deep { 9 } else { 5 }) as u32 };
                routers.push(RouterCfg { id, initial_version, init, steps });
            }
            let ops = if sweep.is_some() { (sweep.unwrap() / 63) as u32 % 3 } else { t.choose(if deep { 28 } else { 10 }) as u32 };
            let mut fk = [false; 10];
            if faulty {
                for k in fk.iter_mut() {
                    *k = t.chance(1, 2);
                }
            }
            (peer, net, Arc::new(uni), source, routers, ops, fk)
        };
        // some history before anyone connects
        let pre = ctx.choose(if deep { 10 } else { 4 });
        for _ in 0..pre {
            let mut set = (*source.inner.lock().unwrap().current).clone();
            uni.mutate(&mut set, &mut ctx.tape.lock().unwrap());
            source.update(set);
        }
        ctx.ev(1, routers.len() as u64, || {
            format!(
                "config: peer={:?} net={:?} routers={:?} chaos_ops={} faults={:?} source={:04x}/#{} window={}",
                peer, net,
                routers.iter().map(|r| (r.initial_version, r.init, r.steps)).collect::<Vec<_>>(),
                ops, fault_kinds,
                source.current_state().0, source.current_state().1,
                source.inner.lock().unwrap().window,
            )
        });

        let listener = SimListener::new();
        let notify = NotifySender::new();
        let sh = Arc::new(Shared {
            ctx: ctx.clone(),
            source: source.clone(),
            peer,
            net,
            listener: listener.clone(),
            conns: Mutex::new(Vec::new()),
            faults_off: AtomicBool::new(false),
            violation: Mutex::new(None),
            start,
            counters: Mutex::new(Counters::default()),
        });
        if peer == Peer::Real {
            let server = Server::new(listener.clone(), notify.clone(), source.clone());
            tokio::spawn(server.run());
        }
        let n_routers = routers.len();
        let first_version = routers.first().map(|r| r.initial_version).unwrap_or(0);
        let mut handles = Vec::new();
        for r in routers {
            handles.push(tokio::spawn(router(sh.clone(), r)));
        }
        let chaos_handle = tokio::spawn(chaos(
            sh.clone(),
            uni.clone(),
            if peer == Peer::Real { Some(notify.clone()) } else { None },
            ops,
            fault_kinds,
        ));

        // ---- wait for the actors (bounded in simulated time) -----------------
        let all = async {
            for h in handles {
                let _ = h.await;
            }
        };
        if tokio::time::timeout(Duration::from_secs(600 * 24 * 3600), all).await.is_err() {
            if let Some(p) = take_panics().first() {
                return Err(Violation::new("panic", "task", format!("a task panicked: {}", p)));
            }
            return Err(Violation::new(
                "hang",
                "",
                "routers did not finish their steps within 600 simulated days: some future never completes",
            ));
        }
        chaos_handle.abort();
        let _ = chaos_handle.await;

        // a task that died of a panic explains everything that follows
        let early_panics = take_panics();
        if let Some(p) = early_panics.first() {
            if p.starts_with(crate::common::SPIN_PANIC) {
                return Err(Violation::new("spin", "task", format!("a task spins: {}", p)));
            }
            return Err(Violation::new("panic", "task", format!("a task panicked: {}", p)));
        }

        // Bounded progress without faults: a sweep cell with no chaos
        // operation runs on a perfect transport against a ready source, so the
        // router must have completed a step (down-negotiation included: a
        // client that never gets through makes the property vacuous).
        if matches!(kind, RunKind::Sweep(_)) && ops == 0 && !sh.failed() {
            let done = sh.counters.lock().unwrap().get("steps_completed");
            if done == 0 {
                return Err(Violation::new(
                    "no-progress-without-faults",
                    format!("client-v{}-peer-{}", first_version, peer.tag()),
                    format!(
                        "a client starting at v{} never completed a step in {} attempts against {:?} on a fault-free transport with a ready source",
                        first_version, sh.counters.lock().unwrap().get("steps_failed"), peer
                    ),
                ));
            }
        }

        // ---- bounded progress once faults have stopped (probe) ----------------
        if !sh.failed() {
            sh.faults_off.store(true, Ordering::SeqCst);
            {
                let mut i = source.inner.lock().unwrap();
                i.ready = true;
                i.decline_diff = 0;
            }
            let v = ctx.choose(3) as u8;
            let probe_router = RouterCfg { id: 99, initial_version: v, init: InitState::None, steps: 4 };
            let before = sh.counters.lock().unwrap().get("steps_completed");
            let h = tokio::spawn(router(sh.clone(), probe_router));
            let _ = tokio::time::timeout(Duration::from_secs(100 * 24 * 3600), h).await;
            let after = sh.counters.lock().unwrap().get("steps_completed");
            if after > before {
                sh.bump("probe_converged_after_faults");
            } else if matches!(peer, Peer::LegacyFlipFlop { .. } | Peer::LegacyMixed { .. }) {
                // nobody can (or may) complete a step against this peer
                sh.bump("probe_no_step_against_nonconforming_peer");
            } else if !sh.failed() {
                // bounded progress once faults have stopped: a fresh router on
                // a reliable transport against a ready source gets 4 attempts
                let early_panics = take_panics();
                if let Some(p) = early_panics.first() {
                    return Err(Violation::new("panic", "task", format!("a task panicked: {}", p)));
                }
                return Err(Violation::new(
                    "no-progress-after-faults-stopped",
                    format!("client-v{}-peer-{}", v, peer.tag()),
                    format!(
                        "after the last fault a fresh client starting at v{} did not complete a step in 4 attempts against {:?}",
                        v, peer
                    ),
                ));
            }
        }
        listener.close();
        tokio::task::yield_now().await;

        out.sim_ms = (Instant::now() - start).as_millis() as u64;
        if out.sim_ms > (1u64 << 36) - 1_000_000 {
            crate::common::harness_fail("simulated time left the range tokio's timer wheel orders correctly (2^36 ms)");
        }
        for c in sh.conns.lock().unwrap().iter() {
            c.c2s.lock().unwrap().self_check();
            c.s2c.lock().unwrap().self_check();
        }
        let panics = take_panics();
        if let Some(p) = panics.first() {
            if p.starts_with(crate::common::SPIN_PANIC) {
                return Err(Violation::new("spin", "task", format!("a task spins: {}", p)));
            }
            return Err(Violation::new("panic", "task", format!("a task panicked: {}", p)));
        }
        if let Some(v) = sh.violation.lock().unwrap().take() {
            return Err(v);
        }
        let mut counters = sh.counters.lock().unwrap().clone();
        counters.add("routers", n_routers as u64);
        counters.add("connections", sh.conns.lock().unwrap().len() as u64);
        match peer {
            Peer::Real => counters.bump("runs_peer_real_server"),
            _ => counters.bump("runs_peer_legacy_cache"),
        }
        Ok(counters)
    }
}

impl Scenario for C06 {
    fn id(&self) -> &'static str { "C06" }
    fn name(&self) -> &'static str { "rtr-sync" }
    fn level(&self) -> &'static str { "exploration" }

    fn sweep_len(&self, _tier: Tier) -> u64 {
        // client version(3) x peer(7) x initial state(3) x chaos ops(3)
        3 * 7 * 3 * 3
    }

    fn random_runs(&self, tier: Tier) -> u64 {
        match tier { Tier::Quick => 1_000_000, Tier::Thorough => 40_000_000 }
    }

    fn run(&self, kind: RunKind, tier: Tier, tape: Tape, log: bool) -> (RunOut, Tape) {
        let _ = take_panics();
        let ctx = Arc::new(SimCtx::new(tape, log, 5_000_000));
        let mut out = RunOut::default();
        let rt = paused_runtime();
        let res = rt.block_on(self.run_async(kind, tier, ctx.clone(), &mut out));
        drop(rt);
        let mut counters = Counters::default();
        match res {
            Ok(c) => counters.merge(&c),
            Err(v) => out.violation = Some(v),
        }
        counters.merge(&ctx.counters.lock().unwrap());
        out.nontrivial = counters.get("steps_completed") > 0;
        out.counters = counters;
        out.evaluations = 1;
        let mut lg = ctx.log.lock().unwrap();
        out.sig = lg.sig;
        out.log = std::mem::take(&mut lg.lines);
        drop(lg);
        let tape = ctx.tape.lock().unwrap().clone();
        (out, tape)
    }

    fn rule(&self) -> &'static str {
        "One run = one history: a versioned source (session, serial incl. values near the 2^32 wrap, \
         retention window for diffs, timing) behind either the real rtr::Server or a LegacyCache stub \
         capped at version 0/1, 1-3 real rtr::Client routers (initial version 0-2; initial state none / \
         genuine earlier state with matching data / foreign session) each performing 1-5 steps and \
         reconnecting with Client::state() after failures (one time in six through Client::run() \
         instead of single steps: the steps completed inside are judged from marks taken at apply), and a chaos task applying up to 9 \
         operations at tape-chosen simulated instants: update (+notify, forgotten, burst), notify \
         without change, restart (new session), not-ready toggle, timing change, transport faults \
         (disconnect, cut with loss, read/write error, stalls up to 31 s) and clock jumps; transport \
         with per-run buffer sizes, latency up to 4 s and chunking. After every completed step the \
         five invariants of DESIGN 4.1 are checked. The sweep walks client version x peer kind x \
         initial state x chaos ops. A run is non-trivial if at least one step completed. distinct = \
         distinct hash of the run's event sequence, counted in a bitmap (lower bound)."
    }

    fn components(&self) -> (Vec<&'static str>, Vec<&'static str>) {
        (
            vec![
                "rpki::rtr::client::Client::{new,with_initial_version,run,step,update,serial,reset,apply,state} incl. IO_TIMEOUT and refresh timers",
                "rpki::rtr::server::{Server::run, Connection::*, NotifySender/NotifyReceiver}",
                "rpki::rtr::pdu readers/writers, rpki::rtr::payload, rpki::rtr::state",
                "tokio current-thread scheduler, paused clock (timers auto-advance), broadcast channel",
            ],
            vec![
                "SimSocket/pipes + latency pump tasks, SimListener",
                "VersionedSource (PayloadSource stub = ground truth)",
                "ModelTarget (PayloadTarget stub, lenient set semantics, records every update)",
                "LegacyCache (foreign cache capped at v0/v1; only used to provoke down-negotiation: evidence there is about the real client only)",
                "chaos task (source operations, transport faults, clock jumps)",
            ],
        )
    }

    fn assumptions(&self) -> Vec<&'static str> {
        vec![
            "every PDU of a response a step completes on carries the negotiated version (checked against the non-conforming LegacyMixed and LegacyFlipFlop peers): this is C07's clause 'a header that announces a wrong version ends in an error' seen at the client; C06's own statement is about data, state and timing",
            "bytes inside one connection are never reordered, duplicated or corrupted (TCP); connections may stall, end or fail at any byte",
            "a failed step asserts nothing except that the target was not modified; the router then reconnects with Client::state() and its retained data (documented API use), so a state that ran ahead of the data is caught at the next completed step",
            "duplicate announcements / unknown withdrawals are probes, not violations: the statement only fixes the resulting set",
            "a cancelled step() future is never resumed on the same client (documented as a way to stop)",
            "LegacyCache is a stub peer written from RFC 6810/8210",
            "bounded progress: on a fault-free transport with a ready source (sweep cells without chaos operations, and the fresh router started after the last fault of every run) a client must complete a step within 4 attempts for every client version x peer combination - otherwise 'holds for every version, including downgrade' would be vacuous",
        ]
    }

    fn vacuous(&self, totals: &Counters) -> Option<String> {
        if totals.get("steps_completed") == 0 {
            return Some("no client step ever completed".into());
        }
        if totals.get("probe_converged_after_faults") == 0 {
            return Some("no run converged after faults stopped".into());
        }
        None
    }
}
