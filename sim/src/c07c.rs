//! C07, client level: the real `rtr::Client` reads a cache's reply that ends
//! early or whose PDU headers announce a wrong type, length or version.
//!
//! The PDU readers of `rtr::pdu` are enumerated one by one in `c07.rs`; a
//! router does not call them one by one, it calls `Client::step()`, which
//! strings them together (`FirstSerialReply::read`, `FirstResetReply::read`,
//! `Payload::read`, `Error::skip_payload`, the version negotiation, the IO
//! timeout). This class feeds `step()` a reply built by the independent codec -
//! a data response to a Reset or Serial Query, a Cache Reset followed by the
//! response to the Reset Query that must follow, an Error Report with any code,
//! or a version downgrade (Error code 4 in a lower version, then the response
//! in that version) - and enumerates the same faults over it: every truncation
//! offset (then end of stream, or a peer that goes silent) and every header
//! corruption of every PDU of the reply. `step()` must terminate (the IO
//! timeout runs on the paused clock), must not panic or spin, must not report a
//! completed step for a reply that ended before its End of Data, and must have
//! handed its target exactly one update if it reports success and none if not.

use std::sync::Arc;
use std::time::Duration;
use rpki::rtr::client::Client;
use crate::common::{fnv, hex, Counters, RunOut, SimCtx, Violation};
use crate::exec::{guarded, paused_runtime};
use crate::net::{new_pipe, SimSocket};
use crate::rtrcodec::{self as wire, WirePdu};
use crate::source::{mk_state, ModelTarget};
use crate::tape::Tape;

/// A reply to one client query, with the offset at which the first complete
/// answer ends (`None`: the reply contains no complete data response).
struct Reply {
    bytes: Vec<u8>,
    /// Offsets of the PDUs in `bytes`.
    starts: Vec<usize>,
    /// End of the End of Data that completes the step, if any.
    complete_at: Option<usize>,
    /// Indices (into `starts`) of the Cache Response and the End of Data of
    /// the data response, if the reply has one.
    response: Option<(usize, usize)>,
    /// Version and session of the End of Data that completes the step.
    eod: Option<(u8, u16)>,
    /// What the client starts with.
    state: Option<(u16, u32)>,
    init_v: u8,
    what: String,
}

fn restamp(p: &WirePdu, v: u8) -> Option<WirePdu> {
    Some(match p.clone() {
        WirePdu::Ipv4 { flags, plen, maxlen, addr, asn, .. } => WirePdu::Ipv4 { v, flags, plen, maxlen, addr, asn },
        WirePdu::Ipv6 { flags, plen, maxlen, addr, asn, .. } => WirePdu::Ipv6 { v, flags, plen, maxlen, addr, asn },
        WirePdu::RouterKey { flags, ski, asn, spki, .. } if v >= 1 => WirePdu::RouterKey { v, flags, ski, asn, spki },
        WirePdu::Aspa { flags, customer, providers, .. } if v >= 2 => WirePdu::Aspa { v, flags, customer, providers },
        _ => return None,
    })
}

fn gen_reply(t: &mut Tape, seq: &[WirePdu]) -> Reply {
    let v = t.choose(3) as u8;
    let session = t.bits(16) as u16;
    let serial = *t.pick(&[0u32, 1, 77, u32::MAX - 1, u32::MAX]);
    let timing = if v == 0 { None } else { Some((3600, 600, 7200)) };
    let payloads: Vec<WirePdu> = seq.iter().filter_map(|p| restamp(p, v)).collect();
    let data_response = |v: u8| -> Vec<WirePdu> {
        let mut r = vec![WirePdu::CacheResponse { v, session }];
        r.extend(payloads.iter().filter_map(|p| restamp(p, v)));
        r.push(WirePdu::EndOfData { v, session, serial, timing: if v == 0 { None } else { timing.or(Some((1, 1, 600))) } });
        r
    };
    let mode = t.choose(6);
    let have_state = match mode { 1 | 2 => true, 0 => false, _ => t.chance(1, 2) };
    let state = if have_state { Some((session, serial.wrapping_sub(t.choose(3) as u32))) } else { None };
    let (pdus, complete_idx, init_v, what): (Vec<WirePdu>, Option<usize>, u8, &str) = match mode {
        0 | 1 => {
            let r = data_response(v);
            let n = r.len();
            (r, Some(n - 1), v, if mode == 0 { "data response to a Reset Query" } else { "data response to a Serial Query" })
        }
        2 => {
            let mut r = vec![WirePdu::CacheReset { v }];
            r.extend(data_response(v));
            let n = r.len();
            (r, Some(n - 1), v, "Cache Reset, then the response to the Reset Query")
        }
        3 | 4 => {
            let code = if mode == 3 { t.choose(12) as u16 } else { *t.pick(&[0u16, 1, 2, 3, 5, 6, 7, 8, 255, 65535]) };
            let inner_len = *t.pick(&[0usize, 8, 12, 20, 300]);
            let text_len = *t.pick(&[0usize, 1, 3, 17, 255]);
            let inner: Vec<u8> = (0..inner_len).map(|i| (i as u8).wrapping_mul(29)).collect();
            let text: Vec<u8> = (0..text_len).map(|i| b'a' + (i % 26) as u8).collect();
            // an Error Report whose version is at most the client's
            (vec![WirePdu::Error { v, code, pdu: inner, text }], None, v.max(t.choose(3) as u8), "Error Report as the first reply")
        }
        _ => {
            // downgrade: the client starts above the cache's version
            let low = t.choose(2) as u8; // 0 or 1
            let high = low + 1 + t.choose((2 - low) as u64) as u8;
            let mut r = vec![WirePdu::Error { v: low, code: 4, pdu: vec![high, 2, 0, 0, 0, 0, 0, 8], text: b"unsupported".to_vec() }];
            let mut resp = vec![WirePdu::CacheResponse { v: low, session }];
            resp.extend(payloads.iter().filter_map(|p| restamp(p, low)));
            resp.push(WirePdu::EndOfData { v: low, session, serial, timing: if low == 0 { None } else { Some((3600, 600, 7200)) } });
            r.extend(resp);
            let n = r.len();
            (r, Some(n - 1), high, "Error code 4 in a lower version, then the response in that version")
        }
    };
    let mut bytes = Vec::new();
    let mut starts = Vec::new();
    let mut complete_at = None;
    for (i, p) in pdus.iter().enumerate() {
        starts.push(bytes.len());
        bytes.extend(p.encode());
        if Some(i) == complete_idx {
            complete_at = Some(bytes.len());
        }
    }
    let eod = complete_idx.and_then(|e| match &pdus[e] {
        WirePdu::EndOfData { v, session, .. } => Some((*v, *session)),
        _ => None,
    });
    let response = complete_idx.and_then(|e| pdus.iter().position(|p| matches!(p, WirePdu::CacheResponse { .. })).map(|b| (b, e)));
    Reply {
        bytes, starts, complete_at, response, eod,
        state: if mode == 5 { None } else { state },
        init_v,
        what: format!("{} (v{}, client starts at v{}, state {:?}): {}", what, v, init_v, state, pdus.iter().map(wire::describe).collect::<Vec<_>>().join(", ")),
    }
}

struct CaseOut {
    /// `None`: the outer deadline (a simulated hour) passed.
    res: Option<Result<(), std::io::Error>>,
    applied: usize,
}

fn run_case(
    rt: &tokio::runtime::Runtime,
    ctx: &Arc<SimCtx>,
    reply: &Reply,
    stream: &[u8],
    eof: bool,
    short_reads: bool,
) -> Result<CaseOut, Violation> {
    guarded("client-step", || {
        ctx.reset_polls();
        let c2s = new_pipe("c->s", true, usize::MAX);
        let s2c = new_pipe("s->c", true, usize::MAX);
        {
            let mut p = s2c.lock().unwrap();
            p.short_reads = short_reads;
            p.inject(stream);
            if eof {
                p.close_writer();
            }
        }
        let sock = SimSocket { rx: s2c.clone(), tx: c2s.clone(), ctx: ctx.clone(), updates: Default::default() };
        let target = ModelTarget::default();
        let mut client = Client::with_initial_version(reply.init_v, sock, target.clone(), reply.state.map(mk_state));
        let res = rt.block_on(async { tokio::time::timeout(Duration::from_secs(3_600), client.step()).await });
        let applied = target.0.lock().unwrap().applied.len();
        Ok(CaseOut { res: res.ok(), applied })
    })
}

fn judge(reply: &Reply, name: &str, stream: &[u8], eof: bool, cut: Option<usize>, o: &CaseOut) -> Result<(), Violation> {
    let key = name.split('@').next().unwrap_or(name).to_string();
    match &o.res {
        // A peer that goes silent without closing: only the first reply to a
        // query is read under the client's IO timeout, so the step may wait
        // for as long as the peer stays silent. The statement is about streams
        // that END early; waiting on an open stream is not a hang.
        None if !eof => Ok(()),
        None => Err(Violation::new(
            "client-hang",
            key,
            format!("Client::step() did not return within a simulated hour (the IO timeout of the client is 10 s) on [{}]; reply: {}; stream={}", name, reply.what, hex(&stream[..stream.len().min(96)])),
        )),
        Some(Ok(())) => {
            if let Some(k) = cut {
                if reply.complete_at.map(|c| k < c).unwrap_or(true) {
                    return Err(Violation::new(
                        "client-accepted-truncated",
                        key,
                        format!("Client::step() reported a completed step although the reply ended after {} of {} bytes, before its End of Data; reply: {}", k, reply.bytes.len(), reply.what),
                    ));
                }
            }
            if o.applied != 1 {
                return Err(Violation::new("client-apply-count", key, format!("a completed step handed the target {} updates [{}]; reply: {}", o.applied, name, reply.what)));
            }
            Ok(())
        }
        Some(Err(_)) => {
            if o.applied != 0 {
                return Err(Violation::new("client-apply-count", key, format!("a failed step handed the target {} updates [{}]; reply: {}", o.applied, name, reply.what)));
            }
            Ok(())
        }
    }
}

pub fn client_cases(ctx: &Arc<SimCtx>, seq: &[WirePdu], counters: &mut Counters, out: &mut RunOut) -> Result<(), Violation> {
    let reply = { let mut t = ctx.tape.lock().unwrap(); gen_reply(&mut t, seq) };
    ctx.ev(70, reply.bytes.len() as u64, || format!("client level: {}", reply.what));
    let rt = paused_runtime();
    let mut case = |name: String, stream: &[u8], eof: bool, cut: Option<usize>, counters: &mut Counters, out: &mut RunOut| -> Result<(), Violation> {
        let short = ctx.chance(1, 2);
        ctx.ev(71, stream.len() as u64, || format!("client case {} ({} bytes, eof={}, short reads={})", name, stream.len(), eof, short));
        let o = run_case(&rt, ctx, &reply, stream, eof, short).map_err(|mut v| {
            v.detail = format!("{} [client level, {}; reply: {}]", v.detail, name, reply.what);
            v
        })?;
        out.evaluations += 1;
        out.sub_sigs.push(fnv(&stream[..stream.len().min(256)]) ^ (stream.len() as u64) << 40 ^ (eof as u64) << 63 ^ 0x7c);
        match &o.res {
            Some(Ok(())) => counters.bump("client_steps_completed"),
            Some(Err(e)) if e.kind() == std::io::ErrorKind::TimedOut => counters.bump("client_steps_timed_out"),
            None => counters.bump("probe_client_waits_on_silent_peer_mid_response"),
            _ => counters.bump("client_steps_failed"),
        }
        judge(&reply, &name, stream, eof, cut, &o)
    };
    // the intact reply
    case("intact@".into(), &reply.bytes, true, None, counters, out)?;
    counters.bump("client_intact_replies");
    // every truncation offset (sampled inside large PDUs), with end of stream
    // and - near PDU boundaries - with a peer that goes silent instead
    let len = reply.bytes.len();
    let mut k = 0usize;
    while k < len {
        let near = reply.starts.iter().any(|s| k >= *s && k < *s + 40);
        case(format!("truncated@{}", k), &reply.bytes[..k], true, Some(k), counters, out)?;
        counters.bump("fault_client_truncation_eof");
        if near && (k % 4 == 1 || ctx.chance(1, 8)) {
            case(format!("stalled@{}", k), &reply.bytes[..k], false, Some(k), counters, out)?;
            counters.bump("fault_client_peer_silent");
        }
        k += if near { 1 } else { 1 + (len / 200) };
    }
    // every header corruption of every PDU of the reply
    for (i, s) in reply.starts.iter().enumerate() {
        let end = reply.starts.get(i + 1).copied().unwrap_or(len);
        for (cname, c) in crate::c07::corruptions(&reply.bytes[*s..end]) {
            let ann = u32::from_be_bytes([c[4], c[5], c[6], c[7]]);
            if ann > (1 << 24) && (!ctx.chance(1, 32) || !crate::c07::huge_alloc_granted()) {
                continue;
            }
            let mut stream = reply.bytes[..*s].to_vec();
            stream.extend_from_slice(&c);
            stream.extend_from_slice(&reply.bytes[end..]);
            // A PDU of fixed size (Cache Response, Cache Reset, prefix PDUs,
            // End of Data) whose length field says something else: the step
            // must not complete ("a header that announces a wrong length ends
            // in an error").
            let ty = reply.bytes[*s + 1];
            let orig_len = u32::from_be_bytes([reply.bytes[*s + 4], reply.bytes[*s + 5], reply.bytes[*s + 6], reply.bytes[*s + 7]]);
            let fixed = matches!(ty, 3 | 4 | 6 | 7 | 8);
            if fixed && ann != orig_len && c[..4] == reply.bytes[*s..*s + 4] {
                let name = format!("{}@pdu{}", cname, i);
                let short = ctx.chance(1, 2);
                ctx.ev(71, stream.len() as u64, || format!("client case {} (fixed-size PDU with another length, short reads={})", name, short));
                let o = run_case(&rt, ctx, &reply, &stream, true, short)?;
                out.evaluations += 1;
                out.sub_sigs.push(fnv(&stream[..stream.len().min(256)]) ^ (stream.len() as u64) << 40 ^ 0x7f);
                counters.bump("fault_client_fixed_size_pdu_with_wrong_length");
                if let Some(Ok(())) = o.res {
                    return Err(Violation::new(
                        "client-accepted-wrong-length",
                        format!("pdu-type-{}", ty),
                        format!("Client::step() completed on a reply whose PDU #{} (type {}, fixed size {}) announces length {}; reply: {}", i, ty, orig_len, ann, reply.what),
                    ));
                }
                judge(&reply, &name, &stream, true, None, &o)?;
                continue;
            }
            case(format!("{}@pdu{}", cname, i), &stream, true, None, counters, out)?;
            counters.bump("fault_client_header_corruption");
        }
    }
    // The wait between two steps: after a completed step the client waits for a
    // Serial Notify (until its refresh timer fires). What arrives then is a
    // Serial Notify that is cut short or whose header is damaged, followed by
    // the end of the stream - there is no second answer, so a second step
    // cannot complete; it must end (the refresh timer runs on the paused
    // clock), not panic and not touch the target.
    if reply.complete_at == Some(reply.bytes.len()) {
        let (nv, session) = reply.eod.unwrap_or((0, 0));
        let notify = WirePdu::SerialNotify { v: nv, session, serial: 7 }.encode();
        let mut tails: Vec<(String, Vec<u8>)> = (0..notify.len()).map(|k| (format!("idle-truncated@{}", k), notify[..k].to_vec())).collect();
        for (cname, c) in crate::c07::corruptions(&notify) {
            let ann = u32::from_be_bytes([c[4], c[5], c[6], c[7]]);
            if ann <= (1 << 24) {
                tails.push((format!("idle-{}", cname), c));
            }
        }
        for (name, tail) in tails {
            let mut stream = reply.bytes.clone();
            stream.extend_from_slice(&tail);
            let short = ctx.chance(1, 2);
            ctx.ev(71, stream.len() as u64, || format!("client case {} (two steps, short reads={})", name, short));
            let o = guarded("client-step", || {
                ctx.reset_polls();
                let c2s = new_pipe("c->s", true, usize::MAX);
                let s2c = new_pipe("s->c", true, usize::MAX);
                {
                    let mut p = s2c.lock().unwrap();
                    p.short_reads = short;
                    p.inject(&stream);
                    p.close_writer();
                }
                let sock = SimSocket { rx: s2c.clone(), tx: c2s.clone(), ctx: ctx.clone(), updates: Default::default() };
                let target = ModelTarget::default();
                let mut client = Client::with_initial_version(reply.init_v, sock, target.clone(), reply.state.map(mk_state));
                let res = rt.block_on(async {
                    let first = tokio::time::timeout(Duration::from_secs(3_600), client.step()).await;
                    match first {
                        Ok(Ok(())) => Some(tokio::time::timeout(Duration::from_secs(2 * 86_400), client.step()).await.ok()),
                        _ => None,
                    }
                });
                let applied = target.0.lock().unwrap().applied.len();
                Ok((res, applied))
            })?;
            out.evaluations += 1;
            out.sub_sigs.push(fnv(&tail) ^ (tail.len() as u64) << 40 ^ 0x7e);
            counters.bump("fault_client_idle_wait_damaged_notify");
            match o {
                (None, _) => counters.bump("probe_client_first_step_failed_on_intact_reply"),
                (Some(None), _) => {
                    return Err(Violation::new(
                        "client-hang",
                        "idle",
                        format!("the second Client::step() did not return within two simulated days (the refresh timer of the generated replies is an hour) on [{}]; reply: {}", name, reply.what),
                    ));
                }
                (Some(Some(Ok(()))), _) => {
                    return Err(Violation::new(
                        "client-accepted-truncated",
                        "idle",
                        format!("a second Client::step() completed although the stream held no second answer [{}]; reply: {}", name, reply.what),
                    ));
                }
                (Some(Some(Err(_))), applied) => {
                    if applied != 1 {
                        return Err(Violation::new("client-apply-count", "idle", format!("after one completed and one failed step the target was handed {} updates [{}]", applied, name)));
                    }
                    counters.bump("client_second_steps_failed_as_they_must");
                }
            }
        }
    }
    // One PDU of the data response stamped with another SUPPORTED version
    // (same octets otherwise): a step must not complete on a response that
    // mixes protocol versions.
    if let Some((b, e)) = reply.response {
        for i in b..=e {
            let s = reply.starts[i];
            let orig = reply.bytes[s];
            for w in 0u8..=2 {
                if w == orig {
                    continue;
                }
                let mut stream = reply.bytes.clone();
                stream[s] = w;
                let name = format!("version-{}@pdu{}", w, i);
                let short = ctx.chance(1, 2);
                ctx.ev(71, stream.len() as u64, || format!("client case {} (short reads={})", name, short));
                let o = run_case(&rt, ctx, &reply, &stream, true, short)?;
                out.evaluations += 1;
                out.sub_sigs.push(fnv(&stream[..stream.len().min(256)]) ^ (i as u64) << 44 ^ (w as u64) << 52 ^ 0x7d);
                counters.bump("fault_client_one_pdu_in_other_supported_version");
                if let Some(Ok(())) = o.res {
                    return Err(Violation::new(
                        "client-accepted-mixed-versions",
                        format!("pdu-type-{}", reply.bytes[s + 1]),
                        format!("Client::step() completed on a response whose PDU #{} carries version {} while the rest carries {}; reply: {}", i, w, orig, reply.what),
                    ));
                }
                judge(&reply, &name, &stream, true, None, &o)?;
            }
        }
    }
    Ok(())
}
