//! Types shared by all scenarios: violations, counters, event log, run output.

use std::sync::atomic::{AtomicU64, Ordering};
use std::sync::Mutex;
use crate::tape::Tape;

//------------ Violation -------------------------------------------------------

#[derive(Clone, Debug)]
pub struct Violation {
    /// Oracle that fired, e.g. `lost-query`, `data-mismatch`, `spin`.
    pub class: String,
    /// Parameters that identify the failing site (used for known findings).
    pub key: String,
    /// Human readable details.
    pub detail: String,
}

impl Violation {
    pub fn new(class: &str, key: impl Into<String>, detail: impl Into<String>) -> Self {
        Violation { class: class.into(), key: key.into(), detail: detail.into() }
    }
    pub fn ident(&self) -> String {
        if self.key.is_empty() {
            self.class.clone()
        } else {
            format!("{}:{}", self.class, self.key)
        }
    }
}

/// Panic payload prefix for harness self-check failures (exit 2, never a verdict).
pub const HARNESS_PANIC: &str = "HARNESS:";
/// Panic payload for run-away detection inside a library future.
pub const SPIN_PANIC: &str = "SIM_SPIN";

pub fn harness_fail(msg: impl AsRef<str>) -> ! {
    panic!("{} {}", HARNESS_PANIC, msg.as_ref());
}

//------------ Counters --------------------------------------------------------

#[derive(Clone, Debug, Default)]
pub struct Counters(pub Vec<(&'static str, u64)>);

impl Counters {
    pub fn bump(&mut self, key: &'static str) {
        self.add(key, 1)
    }
    pub fn add(&mut self, key: &'static str, n: u64) {
        for item in self.0.iter_mut() {
            if item.0 == key {
                item.1 += n;
                return;
            }
        }
        self.0.push((key, n));
    }
    pub fn get(&self, key: &str) -> u64 {
        self.0.iter().find(|i| i.0 == key).map(|i| i.1).unwrap_or(0)
    }
    /// Sums counters; keys starting with `probe_max_` are maxima.
    pub fn merge(&mut self, other: &Counters) {
        for (k, v) in &other.0 {
            if k.starts_with("probe_max_") {
                self.max_into(k, *v);
            } else {
                self.add(k, *v);
            }
        }
    }
    pub fn max_into(&mut self, key: &'static str, v: u64) {
        for item in self.0.iter_mut() {
            if item.0 == key {
                if v > item.1 {
                    item.1 = v;
                }
                return;
            }
        }
        self.0.push((key, v));
    }
}

//------------ Log -------------------------------------------------------------

/// Event log of one run. Events are stamped with a global event sequence
/// number; formatting only happens when logging is enabled and never draws
/// from the tape or reads a clock.
#[derive(Debug, Default)]
pub struct Log {
    pub enabled: bool,
    pub seq: u64,
    pub lines: Vec<String>,
    /// Rolling hash over (event kind, small args): the interleaving signature.
    pub sig: u64,
}

/// Set by `replay`: every event is printed the moment it is recorded, so
/// that the schedule up to the point of death is visible for a run that
/// brings the process down or never returns.
pub static ECHO_LOG: std::sync::atomic::AtomicBool = std::sync::atomic::AtomicBool::new(false);

impl Log {
    pub fn new(enabled: bool) -> Self {
        Log { enabled, seq: 0, lines: Vec::new(), sig: 0xcbf2_9ce4_8422_2325 }
    }

    /// Records an event. `kind` and `a` feed the interleaving signature;
    /// `text` is only evaluated when logging is on.
    pub fn ev(&mut self, kind: u64, a: u64, text: impl FnOnce() -> String) {
        self.seq += 1;
        self.sig = (self.sig ^ kind.wrapping_mul(0x100_0000_01b3) ^ a.rotate_left(23))
            .wrapping_mul(0x9E37_79B9_7F4A_7C15)
            .rotate_left(29);
        if self.enabled {
            if self.lines.len() < 20_000 {
                let s = text();
                let line = format!("#{:05} {}", self.seq, s);
                if ECHO_LOG.load(std::sync::atomic::Ordering::Relaxed) {
                    use std::io::Write;
                    let out = std::io::stdout();
                    let mut out = out.lock();
                    let _ = writeln!(out, "  {}", &line[..line.len().min(2000)]);
                    let _ = out.flush();
                }
                self.lines.push(line);
            }
        }
    }
}

//------------ RunOut ----------------------------------------------------------

#[derive(Debug, Default)]
pub struct RunOut {
    pub violation: Option<Violation>,
    pub counters: Counters,
    /// Signature of what this run did (schedule/fault/shape). Used to count
    /// distinct runs.
    pub sig: u64,
    /// Did the run exercise anything (by the scenario's stated rule)?
    pub nontrivial: bool,
    /// Simulated time covered, in milliseconds.
    pub sim_ms: u64,
    /// Number of evaluated cases inside this run (>= 1).
    pub evaluations: u64,
    /// Extra signatures of distinct non-trivial sub-cases evaluated in the run.
    pub sub_sigs: Vec<u64>,
    pub log: Vec<String>,
}

//------------ SimCtx ----------------------------------------------------------

/// Per-run context shared between the simulator task and the stubs that are
/// polled from inside the system under test. Everything runs on one thread;
/// the mutexes are never contended.
pub struct SimCtx {
    pub tape: Mutex<Tape>,
    pub log: Mutex<Log>,
    pub counters: Mutex<Counters>,
    /// Incremented whenever a stub makes progress (bytes moved, call served).
    pub progress: AtomicU64,
    /// Total polls of any stub; run-away guard.
    pub polls: AtomicU64,
    pub poll_budget: u64,
}

impl SimCtx {
    pub fn new(tape: Tape, log: bool, poll_budget: u64) -> Self {
        SimCtx {
            tape: Mutex::new(tape),
            log: Mutex::new(Log::new(log)),
            counters: Mutex::new(Counters::default()),
            progress: AtomicU64::new(0),
            polls: AtomicU64::new(0),
            poll_budget,
        }
    }

    pub fn choose(&self, n: u64) -> u64 {
        self.tape.lock().unwrap().choose(n)
    }
    pub fn chance(&self, num: u64, den: u64) -> bool {
        self.tape.lock().unwrap().chance(num, den)
    }
    pub fn range(&self, lo: u64, hi: u64) -> u64 {
        self.tape.lock().unwrap().range(lo, hi)
    }
    pub fn weighted(&self, w: &[u64]) -> usize {
        self.tape.lock().unwrap().weighted(w)
    }
    pub fn bump(&self, key: &'static str) {
        self.counters.lock().unwrap().bump(key)
    }
    pub fn ev(&self, kind: u64, a: u64, text: impl FnOnce() -> String) {
        self.log.lock().unwrap().ev(kind, a, text)
    }
    pub fn progress(&self) {
        self.progress.fetch_add(1, Ordering::Relaxed);
    }
    pub fn progress_count(&self) -> u64 {
        self.progress.load(Ordering::Relaxed)
    }
    /// Starts a new sub-case: the run-away budget is per sub-case.
    pub fn reset_polls(&self) {
        self.polls.store(0, Ordering::Relaxed);
    }
    /// Counts a poll of a stub; panics with the spin sentinel when the run's
    /// poll budget is exceeded (a busy loop inside the code under test).
    pub fn tick(&self) {
        let n = self.polls.fetch_add(1, Ordering::Relaxed);
        if n > self.poll_budget {
            panic!("{}", SPIN_PANIC);
        }
    }
}

pub fn hex(bytes: &[u8]) -> String {
    let mut s = String::with_capacity(bytes.len() * 2);
    for b in bytes.iter().take(96) {
        s.push_str(&format!("{:02x}", b));
    }
    if bytes.len() > 96 {
        s.push_str(&format!("..(+{})", bytes.len() - 96));
    }
    s
}

pub fn fnv(bytes: &[u8]) -> u64 {
    let mut h = 0xcbf2_9ce4_8422_2325u64;
    for b in bytes {
        h ^= *b as u64;
        h = h.wrapping_mul(0x100_0000_01b3);
    }
    h
}
