//! Simulated transport: in-memory duplex stream sockets and a listener, with
//! every byte movement decided by the simulator (or the tape).

use std::collections::VecDeque;
use std::io;
use std::pin::Pin;
use std::sync::{Arc, Mutex};
use std::task::{Context, Poll, Waker};
use tokio::io::{AsyncRead, AsyncWrite, ReadBuf};
use crate::common::{harness_fail, SimCtx, SPIN_PANIC};

/// How many zero-byte reads after EOF a reader may issue before it is
/// considered to be spinning.
const EOF_READ_LIMIT: u32 = 64;

//------------ Pipe ------------------------------------------------------------

/// One direction of a connection.
pub struct PipeInner {
    pub name: &'static str,
    /// Written by the sender, not yet delivered.
    pub outbox: VecDeque<u8>,
    /// Delivered to the receiver, readable.
    pub inbox: VecDeque<u8>,
    /// Writes go straight to the inbox (no simulator-controlled delivery).
    pub direct: bool,
    /// Maximum number of bytes in flight (outbox + inbox) before writes block.
    pub cap: usize,
    /// Writer closed its side: EOF once everything was delivered and read.
    pub writer_closed: bool,
    /// Reader went away: writes fail with BrokenPipe.
    pub reader_gone: bool,
    /// Injected hard error for the next read / write.
    pub read_err: Option<io::ErrorKind>,
    pub write_err: Option<io::ErrorKind>,
    pub reader_waker: Option<Waker>,
    pub writer_waker: Option<Waker>,
    pub pump_waker: Option<Waker>,
    /// Tape decides read sizes (1..=available) / write sizes (1..=space).
    pub short_reads: bool,
    pub short_writes: bool,
    /// 1-in-n chance of a spurious Pending (with immediate self-wake).
    pub spurious_pending: u64,
    /// Full log of bytes written by the sender (the tap the oracles parse).
    pub written: Vec<u8>,
    pub n_delivered: u64,
    pub n_read: u64,
    /// Bytes in flight that a simulated fault threw away.
    pub n_dropped: u64,
    pub reads_after_eof: u32,
    /// Number of poll_read calls / bytes visible at each (for signatures).
    pub read_polls: u64,
}

pub type Pipe = Arc<Mutex<PipeInner>>;

pub fn new_pipe(name: &'static str, direct: bool, cap: usize) -> Pipe {
    Arc::new(Mutex::new(PipeInner {
        name,
        outbox: VecDeque::new(),
        inbox: VecDeque::new(),
        direct,
        cap,
        writer_closed: false,
        reader_gone: false,
        read_err: None,
        write_err: None,
        reader_waker: None,
        writer_waker: None,
        pump_waker: None,
        short_reads: false,
        short_writes: false,
        spurious_pending: 0,
        written: Vec::new(),
        n_delivered: 0,
        n_read: 0,
        n_dropped: 0,
        reads_after_eof: 0,
        read_polls: 0,
    }))
}

impl PipeInner {
    pub fn in_flight(&self) -> usize {
        self.outbox.len() + self.inbox.len()
    }

    /// Simulator: move up to `n` bytes from outbox to inbox. Returns moved.
    pub fn deliver(&mut self, n: usize) -> usize {
        let n = n.min(self.outbox.len());
        for _ in 0..n {
            let b = self.outbox.pop_front().unwrap();
            self.inbox.push_back(b);
        }
        self.n_delivered += n as u64;
        if n > 0 || (self.writer_closed && self.outbox.is_empty()) {
            if let Some(w) = self.reader_waker.take() {
                w.wake();
            }
        }
        n
    }

    /// Simulator: push bytes directly into the inbox (scripted peer).
    pub fn inject(&mut self, bytes: &[u8]) {
        self.written.extend_from_slice(bytes);
        self.inbox.extend(bytes.iter().copied());
        self.n_delivered += bytes.len() as u64;
        if let Some(w) = self.reader_waker.take() {
            w.wake();
        }
    }

    /// Simulator: take up to `n` readable bytes out (scripted peer reading).
    pub fn drain(&mut self, n: usize) -> Vec<u8> {
        let n = n.min(self.inbox.len());
        let out: Vec<u8> = self.inbox.drain(..n).collect();
        self.n_read += out.len() as u64;
        if !out.is_empty() {
            if let Some(w) = self.writer_waker.take() {
                w.wake();
            }
        }
        out
    }

    pub fn close_writer(&mut self) {
        self.writer_closed = true;
        if let Some(w) = self.reader_waker.take() {
            w.wake();
        }
        if let Some(w) = self.pump_waker.take() {
            w.wake();
        }
    }

    pub fn reader_left(&mut self) {
        self.reader_gone = true;
        if let Some(w) = self.writer_waker.take() {
            w.wake();
        }
    }

    pub fn wake_reader(&mut self) {
        if let Some(w) = self.reader_waker.take() {
            w.wake();
        }
    }

    pub fn wake_writer(&mut self) {
        if let Some(w) = self.writer_waker.take() {
            w.wake();
        }
    }

    pub fn at_eof(&self) -> bool {
        self.writer_closed && self.outbox.is_empty() && self.inbox.is_empty()
    }

    /// Stub self-check: conservation of bytes.
    pub fn self_check(&self) {
        let total = self.written.len() as u64;
        let accounted = self.n_read + self.n_dropped + self.inbox.len() as u64 + self.outbox.len() as u64;
        if total != accounted {
            harness_fail(format!(
                "pipe {}: conservation broken: written {} != read {} + inbox {} + outbox {}",
                self.name, total, self.n_read, self.inbox.len(), self.outbox.len()
            ));
        }
    }
}

//------------ SimSocket -------------------------------------------------------

pub struct SimSocket {
    pub rx: Pipe,
    pub tx: Pipe,
    pub ctx: Arc<SimCtx>,
    /// Callback target for `rtr::server::Socket::update`.
    pub updates: Arc<Mutex<Vec<(u16, u32, bool)>>>,
}

/// Creates a connected pair (a, b): a.tx == b.rx and vice versa.
pub fn socket_pair(ctx: &Arc<SimCtx>, a_to_b: Pipe, b_to_a: Pipe) -> (SimSocket, SimSocket) {
    let a = SimSocket {
        rx: b_to_a.clone(),
        tx: a_to_b.clone(),
        ctx: ctx.clone(),
        updates: Arc::new(Mutex::new(Vec::new())),
    };
    let b = SimSocket {
        rx: a_to_b,
        tx: b_to_a,
        ctx: ctx.clone(),
        updates: Arc::new(Mutex::new(Vec::new())),
    };
    (a, b)
}

impl Drop for SimSocket {
    fn drop(&mut self) {
        if let Ok(mut tx) = self.tx.lock() {
            tx.close_writer();
        }
        if let Ok(mut rx) = self.rx.lock() {
            rx.reader_left();
        }
    }
}

impl AsyncRead for SimSocket {
    fn poll_read(
        self: Pin<&mut Self>,
        cx: &mut Context<'_>,
        buf: &mut ReadBuf<'_>,
    ) -> Poll<io::Result<()>> {
        self.ctx.tick();
        let mut rx = self.rx.lock().unwrap();
        rx.read_polls += 1;
        if let Some(kind) = rx.read_err.take() {
            return Poll::Ready(Err(io::Error::new(kind, "simulated read error")));
        }
        if buf.remaining() == 0 {
            return Poll::Ready(Ok(()));
        }
        if rx.inbox.is_empty() {
            if rx.writer_closed && rx.outbox.is_empty() {
                rx.reads_after_eof += 1;
                if rx.reads_after_eof > EOF_READ_LIMIT {
                    drop(rx);
                    panic!("{}", SPIN_PANIC);
                }
                return Poll::Ready(Ok(()));
            }
            rx.reader_waker = Some(cx.waker().clone());
            return Poll::Pending;
        }
        if rx.spurious_pending > 0 && self.ctx.choose(rx.spurious_pending) == rx.spurious_pending - 1 {
            self.ctx.bump("spurious_pending_read");
            cx.waker().wake_by_ref();
            return Poll::Pending;
        }
        let avail = rx.inbox.len().min(buf.remaining());
        let n = if rx.short_reads && avail > 1 {
            let cut = self.ctx.choose(avail as u64) as usize;
            if cut > 0 {
                self.ctx.bump("short_read");
            }
            avail - cut
        } else {
            avail
        };
        let (a, b) = rx.inbox.as_slices();
        if n <= a.len() {
            buf.put_slice(&a[..n]);
        } else {
            buf.put_slice(a);
            buf.put_slice(&b[..n - a.len()]);
        }
        rx.inbox.drain(..n);
        rx.n_read += n as u64;
        if let Some(w) = rx.writer_waker.take() {
            w.wake();
        }
        if let Some(w) = rx.pump_waker.take() {
            w.wake();
        }
        self.ctx.progress();
        Poll::Ready(Ok(()))
    }
}

impl AsyncWrite for SimSocket {
    fn poll_write(
        self: Pin<&mut Self>,
        cx: &mut Context<'_>,
        data: &[u8],
    ) -> Poll<io::Result<usize>> {
        self.ctx.tick();
        let mut tx = self.tx.lock().unwrap();
        if let Some(kind) = tx.write_err.take() {
            return Poll::Ready(Err(io::Error::new(kind, "simulated write error")));
        }
        if tx.reader_gone || tx.writer_closed {
            return Poll::Ready(Err(io::Error::new(
                io::ErrorKind::BrokenPipe,
                "simulated: peer closed",
            )));
        }
        if data.is_empty() {
            return Poll::Ready(Ok(0));
        }
        let space = tx.cap.saturating_sub(tx.in_flight());
        if space == 0 {
            self.ctx.bump("write_backpressure");
            tx.writer_waker = Some(cx.waker().clone());
            return Poll::Pending;
        }
        let max = data.len().min(space);
        let n = if tx.short_writes && max > 1 {
            let cut = self.ctx.choose(max as u64) as usize;
            if cut > 0 {
                self.ctx.bump("short_write");
            }
            max - cut
        } else {
            max
        };
        tx.written.extend_from_slice(&data[..n]);
        if tx.direct {
            tx.inbox.extend(data[..n].iter().copied());
            tx.n_delivered += n as u64;
            if let Some(w) = tx.reader_waker.take() {
                w.wake();
            }
        } else {
            tx.outbox.extend(data[..n].iter().copied());
            if let Some(w) = tx.pump_waker.take() {
                w.wake();
            }
        }
        self.ctx.progress();
        Poll::Ready(Ok(n))
    }

    fn poll_flush(self: Pin<&mut Self>, _cx: &mut Context<'_>) -> Poll<io::Result<()>> {
        self.ctx.tick();
        let tx = self.tx.lock().unwrap();
        if tx.reader_gone {
            return Poll::Ready(Err(io::Error::new(
                io::ErrorKind::BrokenPipe,
                "simulated: peer closed",
            )));
        }
        Poll::Ready(Ok(()))
    }

    fn poll_shutdown(self: Pin<&mut Self>, _cx: &mut Context<'_>) -> Poll<io::Result<()>> {
        self.tx.lock().unwrap().close_writer();
        Poll::Ready(Ok(()))
    }
}

impl rpki::rtr::server::Socket for SimSocket {
    fn update(&self, state: rpki::rtr::State, reset: bool) {
        self.updates.lock().unwrap().push((
            state.session(),
            u32::from(state.serial()),
            reset,
        ));
    }
}

//------------ SimListener -----------------------------------------------------

pub struct ListenerInner {
    pub queue: VecDeque<io::Result<SimSocket>>,
    pub closed: bool,
    pub waker: Option<Waker>,
}

#[derive(Clone)]
pub struct SimListener(pub Arc<Mutex<ListenerInner>>);

impl SimListener {
    pub fn new() -> Self {
        SimListener(Arc::new(Mutex::new(ListenerInner {
            queue: VecDeque::new(),
            closed: false,
            waker: None,
        })))
    }

    pub fn push(&self, sock: SimSocket) {
        let mut l = self.0.lock().unwrap();
        l.queue.push_back(Ok(sock));
        if let Some(w) = l.waker.take() {
            w.wake();
        }
    }

    /// The next accept fails.
    pub fn fail(&self) {
        let mut l = self.0.lock().unwrap();
        l.queue.push_back(Err(io::Error::new(io::ErrorKind::Other, "simulated accept error")));
        if let Some(w) = l.waker.take() {
            w.wake();
        }
    }

    pub fn close(&self) {
        let mut l = self.0.lock().unwrap();
        l.closed = true;
        if let Some(w) = l.waker.take() {
            w.wake();
        }
    }
}

impl futures_util::stream::Stream for SimListener {
    type Item = io::Result<SimSocket>;

    fn poll_next(self: Pin<&mut Self>, cx: &mut Context<'_>) -> Poll<Option<Self::Item>> {
        let mut l = self.0.lock().unwrap();
        if let Some(item) = l.queue.pop_front() {
            return Poll::Ready(Some(item));
        }
        if l.closed {
            return Poll::Ready(None);
        }
        l.waker = Some(cx.waker().clone());
        Poll::Pending
    }
}
