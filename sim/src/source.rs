//! Ground truth for the RTR scenarios: a versioned payload source (stub
//! implementing `PayloadSource`) and a recording payload target (stub
//! implementing `PayloadTarget`).

use std::collections::BTreeMap;
use std::net::{Ipv4Addr, Ipv6Addr};
use std::sync::{Arc, Mutex};
use bytes::Bytes;
use rpki::resources::addr::{MaxLenPrefix, Prefix};
use rpki::resources::asn::Asn;
use rpki::rtr::client::{PayloadError, PayloadTarget};
use rpki::rtr::payload::{Action, Payload, PayloadRef, Timing};
use rpki::rtr::pdu::{ProviderAsns, RouterKeyInfo};
use rpki::rtr::server::{PayloadDiff, PayloadSet, PayloadSource};
use rpki::rtr::state::{Serial, State};
use crate::common::SimCtx;
use crate::rtrcodec::WirePdu;
use crate::tape::Tape;

//------------ Model data -------------------------------------------------------

/// Identity of a payload item in the model. ASPA records are keyed by
/// customer; their providers are the map value.
#[derive(Clone, Debug, PartialEq, Eq, PartialOrd, Ord, Hash)]
pub enum Key {
    Origin { v6: bool, addr: u128, plen: u8, maxlen: u8, asn: u32 },
    RouterKey { ski: [u8; 20], asn: u32, spki: Vec<u8> },
    Aspa { customer: u32 },
}

impl Key {
    /// Minimum protocol version that carries this kind of item.
    pub fn min_version(&self) -> u8 {
        match self {
            Key::Origin { .. } => 0,
            Key::RouterKey { .. } => 1,
            Key::Aspa { .. } => 2,
        }
    }
}

/// A payload set: key -> providers (empty unless ASPA).
pub type DataSet = BTreeMap<Key, Vec<u32>>;

pub fn restrict(set: &DataSet, version: u8) -> DataSet {
    set.iter().filter(|(k, _)| k.min_version() <= version).map(|(k, v)| (k.clone(), v.clone())).collect()
}

/// Like `to_payload`, but an origin whose max length equals its prefix length
/// is spelled without an explicit max length when `implicit` says so (what a
/// source gets from `MaxLenPrefix::from(prefix)`, from parsing "a.b.c.d/n" or
/// from a SLURM assertion without maxPrefixLength). It is the same item.
pub fn to_payload_spelled(key: &Key, providers: &[u32], implicit: bool) -> Payload {
    if let Key::Origin { v6, addr, plen, maxlen, asn } = key {
        if implicit && plen == maxlen {
            let prefix = if *v6 { Prefix::new_v6(Ipv6Addr::from(*addr), *plen) } else { Prefix::new_v4(Ipv4Addr::from(*addr as u32), *plen) }
                .expect("model prefixes are canonical");
            return Payload::origin(MaxLenPrefix::new(prefix, None).expect("no max-len"), Asn::from_u32(*asn));
        }
    }
    to_payload(key, providers)
}

pub fn to_payload(key: &Key, providers: &[u32]) -> Payload {
    match key {
        Key::Origin { v6, addr, plen, maxlen, asn } => {
            let prefix = if *v6 {
                Prefix::new_v6(Ipv6Addr::from(*addr), *plen)
            } else {
                Prefix::new_v4(Ipv4Addr::from(*addr as u32), *plen)
            }
            .expect("model prefixes are canonical");
            Payload::origin(
                MaxLenPrefix::new(prefix, Some(*maxlen)).expect("model max-len is valid"),
                Asn::from_u32(*asn),
            )
        }
        Key::RouterKey { ski, asn, spki } => Payload::router_key(
            (*ski).into(),
            Asn::from_u32(*asn),
            RouterKeyInfo::new(Bytes::from(spki.clone())).expect("key info"),
        ),
        Key::Aspa { customer } if providers.len() > ProviderAsns::MAX_COUNT => oversized_aspa(*customer, providers),
        Key::Aspa { customer } => Payload::aspa(
            Asn::from_u32(*customer),
            ProviderAsns::try_from_iter(providers.iter().map(|p| Asn::from_u32(*p))).expect("providers"),
        ),
    }
}

/// An ASPA record with more providers than the library's own constructor
/// allows. Such a record reaches an application the way it reaches a relay:
/// read off the wire from another cache (the readers accept it) and handed on
/// as source data.
fn oversized_aspa(customer: u32, providers: &[u32]) -> Payload {
    use futures_util::FutureExt;
    let mut bytes = Vec::with_capacity(12 + 4 * providers.len());
    bytes.extend_from_slice(&[2, 11, 1, 0]);
    bytes.extend_from_slice(&((12 + 4 * providers.len()) as u32).to_be_bytes());
    bytes.extend_from_slice(&customer.to_be_bytes());
    for p in providers {
        bytes.extend_from_slice(&p.to_be_bytes());
    }
    let mut rd: &[u8] = &bytes;
    let pdu = rpki::rtr::pdu::Payload::read(&mut rd)
        .now_or_never()
        .expect("reading from a slice never waits");
    match pdu {
        Ok(Ok(Some(pdu))) => match pdu.to_payload() {
            Ok((_, p)) => p,
            Err(_) => crate::common::harness_fail("oversized ASPA PDU refused by to_payload although oversized_supported() said yes"),
        },
        _ => crate::common::harness_fail("oversized ASPA PDU not readable although oversized_supported() said yes"),
    }
}

/// Do the library's readers accept an ASPA PDU with more providers than its
/// own constructor allows? A library that refuses such a PDU is within the
/// statements (C07: reading it "may succeed or fail"); then no application can
/// hold such a record and the universes stay at the constructor's maximum.
pub fn oversized_supported() -> bool {
    static CACHE: std::sync::OnceLock<bool> = std::sync::OnceLock::new();
    *CACHE.get_or_init(|| {
        use futures_util::FutureExt;
        let n = ProviderAsns::MAX_COUNT + 1;
        let mut bytes = Vec::with_capacity(12 + 4 * n);
        bytes.extend_from_slice(&[2, 11, 1, 0]);
        bytes.extend_from_slice(&((12 + 4 * n) as u32).to_be_bytes());
        bytes.extend_from_slice(&65000u32.to_be_bytes());
        for p in 0..n as u32 {
            bytes.extend_from_slice(&p.to_be_bytes());
        }
        let mut rd: &[u8] = &bytes;
        let res = std::panic::catch_unwind(std::panic::AssertUnwindSafe(|| {
            match rpki::rtr::pdu::Payload::read(&mut rd).now_or_never() {
                Some(Ok(Ok(Some(pdu)))) => pdu.to_payload().is_ok(),
                _ => false,
            }
        }));
        let _ = crate::exec::take_panics();
        res.unwrap_or(false)
    })
}

pub fn from_payload(p: &Payload) -> (Key, Vec<u32>) {
    match p {
        Payload::Origin(o) => {
            let (v6, addr) = match o.prefix.addr() {
                std::net::IpAddr::V4(a) => (false, u32::from(a) as u128),
                std::net::IpAddr::V6(a) => (true, u128::from(a)),
            };
            (
                Key::Origin {
                    v6,
                    addr,
                    plen: o.prefix.prefix_len(),
                    maxlen: o.prefix.resolved_max_len(),
                    asn: o.asn.into_u32(),
                },
                Vec::new(),
            )
        }
        Payload::RouterKey(k) => (
            Key::RouterKey {
                ski: k.key_identifier.into(),
                asn: k.asn.into_u32(),
                spki: k.key_info.as_slice().to_vec(),
            },
            Vec::new(),
        ),
        Payload::Aspa(a) => (
            Key::Aspa { customer: a.customer.into_u32() },
            a.providers.iter().map(|x| x.into_u32()).collect(),
        ),
    }
}

/// The wire PDU the RFC prescribes for announcing/withdrawing this item.
pub fn to_wire(key: &Key, providers: &[u32], version: u8, announce: bool) -> WirePdu {
    let flags = if announce { 1 } else { 0 };
    match key {
        Key::Origin { v6: false, addr, plen, maxlen, asn } => WirePdu::Ipv4 {
            v: version, flags, plen: *plen, maxlen: *maxlen, addr: *addr as u32, asn: *asn,
        },
        Key::Origin { v6: true, addr, plen, maxlen, asn } => WirePdu::Ipv6 {
            v: version, flags, plen: *plen, maxlen: *maxlen, addr: *addr, asn: *asn,
        },
        Key::RouterKey { ski, asn, spki } => WirePdu::RouterKey {
            v: version, flags, ski: *ski, asn: *asn, spki: spki.clone(),
        },
        Key::Aspa { customer } => WirePdu::Aspa {
            v: version, flags, customer: *customer, providers: providers.to_vec(),
        },
    }
}

//------------ Universe ---------------------------------------------------------

/// A small per-run universe of items so that updates collide.
pub struct Universe {
    pub keys: Vec<Key>,
    pub provider_sets: Vec<Vec<u32>>,
    /// A large universe (hundreds of items): responses of many kilobytes.
    pub big: bool,
}

/// An AS number: mostly from a handful (so that records collide), sometimes a
/// boundary value (AS0, AS_TRANS, the 16/32-bit border, the largest).
fn gen_asn(t: &mut Tape) -> u32 {
    if t.chance(1, 8) {
        *t.pick(&[0u32, 23456, 65535, 65536, 4_200_000_000, u32::MAX])
    } else {
        64496 + t.choose(4) as u32
    }
}

impl Universe {
    /// Does this universe hold a record of tens of kilobytes (an ASPA with
    /// more providers than the library's constructor accepts)? Scenarios keep
    /// their socket buffers above a few octets then: pushing hundreds of
    /// kilobytes through a one-octet buffer is millions of polls, which the
    /// run-away guard could not tell from a busy loop.
    pub fn has_oversized(&self) -> bool {
        self.provider_sets.iter().any(|p| p.len() > 16380)
    }

    pub fn gen(t: &mut Tape) -> Self {
        let mut keys = Vec::new();
        // mostly small (so that updates collide), sometimes large (so that
        // responses span many kilobytes and many socket buffers)
        let big = t.chance(1, 12);
        let n_origin = if big { 40 + t.choose(300) } else { 2 + t.choose(8) };
        for i in 0..n_origin {
            if t.chance(1, 3) {
                let plen = *t.pick(&[0u8, 1, 32, 48, 64, 127, 128]);
                let maxlen = plen + t.choose((128 - plen) as u64 + 1) as u8;
                let raw = (0x2001_0db8u128 << 96) | ((t.bits(32) as u128) << 64) | i as u128;
                let addr = if plen == 0 { 0 } else { (raw >> (128 - plen as u32)) << (128 - plen as u32) };
                keys.push(Key::Origin { v6: true, addr, plen, maxlen, asn: gen_asn(t) });
            } else {
                let plen = *t.pick(&[0u8, 1, 8, 16, 24, 31, 32]);
                let maxlen = plen + t.choose((32 - plen) as u64 + 1) as u8;
                let raw = (t.bits(32) as u32) ^ (i as u32).rotate_left(8);
                let addr = if plen == 0 { 0 } else { (raw >> (32 - plen as u32)) << (32 - plen as u32) };
                keys.push(Key::Origin { v6: false, addr: addr as u128, plen, maxlen, asn: gen_asn(t) });
            }
        }
        // IPv6 prefixes with a special form: IPv4-mapped (::ffff:a.b.c.d),
        // IPv4-compatible, 6to4, NAT64, loopback
        if t.chance(1, 4) {
            let v4 = t.bits(32) as u128;
            for (base, plen) in [
                ((0xffffu128 << 32) | v4, *t.pick(&[96u8, 104, 120, 128])),
                (v4, 128),
                ((0x2002u128 << 112) | (v4 << 80), 48),
                ((0x0064_ff9bu128 << 96) | v4, *t.pick(&[96u8, 128])),
                (1, 128),
            ] {
                if t.chance(1, 2) {
                    let addr = if plen == 0 { 0 } else { (base >> (128 - plen as u32)) << (128 - plen as u32) };
                    let maxlen = plen + t.choose((128 - plen) as u64 + 1) as u8;
                    keys.push(Key::Origin { v6: true, addr, plen, maxlen, asn: gen_asn(t) });
                }
            }
        }
        let n_keys = if big { t.choose(30) } else { t.choose(4) };
        for i in 0..n_keys {
            let mut ski = [0u8; 20];
            ski[0] = i as u8;
            ski[19] = t.choose(256) as u8;
            let n = *t.pick(&[0usize, 1, 33, 91, 200, 255, 256, 1024]);
            let mut asn = if t.chance(1, 6) { gen_asn(t) } else { 64500 + t.choose(3) as u32 };
            // sometimes the same key identifier and AS as the previous key with
            // other key info: to RTR these are two records
            if i > 0 && t.chance(1, 4) {
                if let Some(Key::RouterKey { ski: prev_ski, asn: prev_asn, .. }) = keys.last() {
                    ski = *prev_ski;
                    asn = *prev_asn;
                }
            }
            keys.push(Key::RouterKey {
                ski,
                asn,
                spki: (0..n).map(|j| (j as u8).wrapping_mul(3).wrapping_add(i as u8)).collect(),
            });
        }
        let n_aspa = if big { t.choose(30) } else { t.choose(4) };
        for i in 0..n_aspa {
            keys.push(Key::Aspa { customer: 65000 + i as u32 });
        }
        keys.sort();
        keys.dedup();
        let provider_sets = vec![
            vec![],
            vec![65100],
            vec![65100, 65101],
            vec![65101, 65102, 65103],
            (0..40).map(|i| 65200 + i).collect(),
            (0..256).map(|i| 70000 + i).collect(),
            (0..300).map(|i| 80000 + 3 * i).collect(),
            // a source may list providers in any order and more than once;
            // what the client hands on is what the source reported
            vec![65103, 65101, 65102],
            vec![65100, 65100, 4_200_000_000, 0],
        ];
        let mut provider_sets = provider_sets;
        // rarely: a record a relay picked up from another cache with more
        // providers than the library's own constructor accepts
        if n_aspa > 0 && t.chance(1, 24) {
            let extra = t.choose(3000) as u32;
            let n = if oversized_supported() { 16381 + extra } else { ProviderAsns::MAX_COUNT as u32 };
            provider_sets.push((0..n).map(|i| 100_000 + i).collect());
            provider_sets.push((0..n).map(|i| 300_000 + 2 * i).collect());
        }
        Universe { keys, provider_sets, big }
    }

    pub fn random_set(&self, t: &mut Tape) -> DataSet {
        let mut set = DataSet::new();
        let density = 1 + t.choose(3);
        for k in &self.keys {
            if t.choose(4) < density {
                set.insert(k.clone(), self.value_for(k, t));
            }
        }
        set
    }

    fn value_for(&self, k: &Key, t: &mut Tape) -> Vec<u32> {
        match k {
            Key::Aspa { .. } => t.pick(&self.provider_sets).clone(),
            _ => Vec::new(),
        }
    }

    /// Mutates `set`: a few removals, additions and ASPA provider changes.
    pub fn mutate(&self, set: &mut DataSet, t: &mut Tape) {
        if self.keys.is_empty() {
            return;
        }
        let n = if self.big && t.chance(1, 2) { t.choose(60) } else { t.choose(5) };
        for _ in 0..n {
            let k = t.pick(&self.keys).clone();
            if set.contains_key(&k) {
                if matches!(k, Key::Aspa { .. }) && t.chance(1, 2) {
                    let v = self.value_for(&k, t);
                    set.insert(k, v);
                } else {
                    set.remove(&k);
                }
            } else {
                let v = self.value_for(&k, t);
                set.insert(k, v);
            }
        }
    }
}

//------------ VersionedSource --------------------------------------------------

pub type StateKey = (u16, u32);

pub fn state_key(s: State) -> StateKey {
    (s.session(), u32::from(s.serial()))
}

pub fn mk_state(k: StateKey) -> State {
    State::from_parts(k.0, Serial(k.1))
}

#[derive(Clone, Debug)]
pub enum CallKind {
    Ready(bool),
    Notify(StateKey),
    Full(StateKey),
    /// (from, result state or None)
    Diff(StateKey, Option<StateKey>),
    Timing((u32, u32, u32)),
}

#[derive(Clone, Debug)]
pub struct SourceCall {
    pub clone_id: u32,
    pub kind: CallKind,
    /// The exact item sequence handed to the server for Full/Diff.
    pub items: Arc<Vec<(Key, Vec<u32>, bool)>>,
}

pub struct SourceInner {
    pub session: u16,
    pub serial: u32,
    pub ready: bool,
    pub timing: (u32, u32, u32),
    pub current: Arc<DataSet>,
    /// Every (state -> set) this source ever reported.
    pub history: BTreeMap<StateKey, Arc<DataSet>>,
    /// States of the current session a diff can start from (oldest first).
    pub retained: Vec<StateKey>,
    /// How many old states are retained for diffs.
    pub window: usize,
    /// 1-in-n chance that diff() declines although it could answer (legal).
    pub decline_diff: u64,
    /// Tape-shuffled iteration order.
    pub shuffle: bool,
    /// ASPA changes are sent as withdraw+announce instead of announce only.
    pub aspa_withdraw_first: bool,
    /// A diff across several serials is the per-serial deltas one after the
    /// other (a record may be announced and withdrawn again within one
    /// answer) instead of the net difference. Order matters then.
    pub chained_diff: bool,
    pub calls: Vec<SourceCall>,
    pub next_clone: u32,
    pub used_sessions: Vec<u16>,
    /// `State::inc()` (what a real source uses to move to its next serial)
    /// disagreed with serial + 1 mod 2^32 in the same session.
    pub state_inc_broken: Option<String>,
    /// Origins whose max length equals their prefix length are handed to the
    /// server without an explicit max length, one time in two.
    pub implicit_max_len: bool,
}

pub struct VersionedSource {
    pub inner: Arc<Mutex<SourceInner>>,
    pub ctx: Arc<SimCtx>,
    pub clone_id: u32,
}

impl Clone for VersionedSource {
    fn clone(&self) -> Self {
        let mut inner = self.inner.lock().unwrap();
        inner.next_clone += 1;
        VersionedSource { inner: self.inner.clone(), ctx: self.ctx.clone(), clone_id: inner.next_clone }
    }
}

impl VersionedSource {
    pub fn new(ctx: &Arc<SimCtx>, session: u16, serial: u32, set: DataSet, window: usize) -> Self {
        let current = Arc::new(set);
        let mut history = BTreeMap::new();
        history.insert((session, serial), current.clone());
        VersionedSource {
            inner: Arc::new(Mutex::new(SourceInner {
                session,
                serial,
                ready: true,
                timing: (3600, 600, 7200),
                current,
                history,
                retained: vec![(session, serial)],
                window,
                decline_diff: 0,
                shuffle: false,
                aspa_withdraw_first: false,
                chained_diff: false,
                calls: Vec::new(),
                next_clone: 0,
                used_sessions: vec![session],
                state_inc_broken: None,
                implicit_max_len: false,
            })),
            ctx: ctx.clone(),
            clone_id: 0,
        }
    }

    pub fn current_state(&self) -> StateKey {
        let i = self.inner.lock().unwrap();
        (i.session, i.serial)
    }

    /// Installs a new data set under the next serial.
    pub fn update(&self, set: DataSet) -> StateKey {
        let mut i = self.inner.lock().unwrap();
        // the next state the way an application computes it, checked against
        // RFC 1982 addition done by hand
        let mut lib = mk_state((i.session, i.serial));
        lib.inc();
        let want = (i.session, i.serial.wrapping_add(1));
        if state_key(lib) != want && i.state_inc_broken.is_none() {
            i.state_inc_broken = Some(format!(
                "State::inc() on {:04x}/#{} gave {:04x}/#{}, expected {:04x}/#{}",
                i.session, i.serial, lib.session(), u32::from(lib.serial()), want.0, want.1
            ));
        }
        i.serial = want.1;
        i.current = Arc::new(set);
        let key = (i.session, i.serial);
        let cur = i.current.clone();
        i.history.insert(key, cur);
        i.retained.push(key);
        let keep = i.window + 1;
        if i.retained.len() > keep {
            let drop_n = i.retained.len() - keep;
            i.retained.drain(..drop_n);
        }
        key
    }

    /// Restart: new session, history for diffs is gone.
    pub fn restart(&self, session: u16, serial: u32, set: DataSet) -> StateKey {
        let mut i = self.inner.lock().unwrap();
        i.session = session;
        i.serial = serial;
        i.current = Arc::new(set);
        let key = (session, serial);
        let cur = i.current.clone();
        i.history.insert(key, cur);
        i.retained = vec![key];
        i.used_sessions.push(session);
        key
    }

    pub fn set_at(&self, key: StateKey) -> Option<Arc<DataSet>> {
        self.inner.lock().unwrap().history.get(&key).cloned()
    }

    fn order(&self, mut units: Vec<Vec<(Key, Vec<u32>, bool)>>, shuffle: bool) -> Vec<(Key, Vec<u32>, bool)> {
        if shuffle {
            // Fisher-Yates driven by the tape
            let n = units.len();
            for i in (1..n).rev() {
                let j = self.ctx.choose(i as u64 + 1) as usize;
                units.swap(i, j);
            }
        }
        units.into_iter().flatten().collect()
    }
}

pub struct VecSet {
    items: Vec<Payload>,
    pos: usize,
}

impl PayloadSet for VecSet {
    fn next(&mut self) -> Option<PayloadRef<'_>> {
        let item = self.items.get(self.pos)?;
        self.pos += 1;
        Some(item.as_ref())
    }
}

pub struct VecDiff {
    items: Vec<(Payload, Action)>,
    pos: usize,
}

impl PayloadDiff for VecDiff {
    fn next(&mut self) -> Option<(PayloadRef<'_>, Action)> {
        let item = self.items.get(self.pos)?;
        self.pos += 1;
        Some((item.0.as_ref(), item.1))
    }
}

impl PayloadSource for VersionedSource {
    type Set = VecSet;
    type Diff = VecDiff;

    fn ready(&self) -> bool {
        let mut i = self.inner.lock().unwrap();
        let r = i.ready;
        i.calls.push(SourceCall { clone_id: self.clone_id, kind: CallKind::Ready(r), items: Arc::new(Vec::new()) });
        self.ctx.progress();
        r
    }

    fn notify(&self) -> State {
        let mut i = self.inner.lock().unwrap();
        let key = (i.session, i.serial);
        i.calls.push(SourceCall { clone_id: self.clone_id, kind: CallKind::Notify(key), items: Arc::new(Vec::new()) });
        self.ctx.progress();
        self.ctx.ev(20, key.1 as u64, || format!("source.notify() by conn {} -> {:04x}/#{}", self.clone_id, key.0, key.1));
        mk_state(key)
    }

    fn full(&self) -> (State, Self::Set) {
        let (key, units, shuffle) = {
            let i = self.inner.lock().unwrap();
            let units: Vec<Vec<(Key, Vec<u32>, bool)>> =
                i.current.iter().map(|(k, v)| vec![(k.clone(), v.clone(), true)]).collect();
            ((i.session, i.serial), units, i.shuffle)
        };
        let items = Arc::new(self.order(units, shuffle));
        let implicit = self.inner.lock().unwrap().implicit_max_len;
        let payloads = items.iter().map(|(k, v, _)| to_payload_spelled(k, v, implicit && self.ctx.chance(1, 2))).collect();
        let mut i = self.inner.lock().unwrap();
        i.calls.push(SourceCall { clone_id: self.clone_id, kind: CallKind::Full(key), items: items.clone() });
        self.ctx.progress();
        self.ctx.ev(21, key.1 as u64, || {
            format!("source.full() by conn {} -> {:04x}/#{} ({} items)", self.clone_id, key.0, key.1, items.len())
        });
        (mk_state(key), VecSet { items: payloads, pos: 0 })
    }

    fn diff(&self, state: State) -> Option<(State, Self::Diff)> {
        let from = state_key(state);
        let decline = {
            let i = self.inner.lock().unwrap();
            i.decline_diff
        };
        let declined = decline > 0 && self.ctx.choose(decline) == decline - 1;
        let (res, shuffle) = {
            let i = self.inner.lock().unwrap();
            let key = (i.session, i.serial);
            let res = if declined || from.0 != i.session || !i.retained.contains(&from) {
                None
            } else {
                // the states to walk through: from -> (intermediate ones) -> current
                let at = i.retained.iter().position(|k| *k == from).expect("checked above");
                let hops: Vec<StateKey> = if i.chained_diff { i.retained[at..].to_vec() } else { vec![from, key] };
                let mut steps: Vec<Vec<Vec<(Key, Vec<u32>, bool)>>> = Vec::new();
                for w in hops.windows(2) {
                    let old = i.history.get(&w[0]).expect("retained state has a set");
                    let new = i.history.get(&w[1]).expect("retained state has a set");
                    let mut units: Vec<Vec<(Key, Vec<u32>, bool)>> = Vec::new();
                    for (k, v) in old.iter() {
                        match new.get(k) {
                            None => units.push(vec![(k.clone(), v.clone(), false)]),
                            Some(nv) if nv != v => {
                                if i.aspa_withdraw_first {
                                    units.push(vec![(k.clone(), v.clone(), false), (k.clone(), nv.clone(), true)]);
                                } else {
                                    units.push(vec![(k.clone(), nv.clone(), true)]);
                                }
                            }
                            _ => {}
                        }
                    }
                    for (k, v) in new.iter() {
                        if !old.contains_key(k) {
                            units.push(vec![(k.clone(), v.clone(), true)]);
                        }
                    }
                    steps.push(units);
                }
                let units = steps;
                Some((key, units))
            };
            (res, i.shuffle)
        };
        if declined {
            self.ctx.bump("fault_diff_declined");
        }
        match res {
            None => {
                let mut i = self.inner.lock().unwrap();
                i.calls.push(SourceCall { clone_id: self.clone_id, kind: CallKind::Diff(from, None), items: Arc::new(Vec::new()) });
                self.ctx.progress();
                self.ctx.ev(22, from.1 as u64, || {
                    format!("source.diff({:04x}/#{}) by conn {} -> None", from.0, from.1, self.clone_id)
                });
                None
            }
            Some((key, steps)) => {
                if steps.len() > 1 {
                    self.ctx.bump("probe_diff_served_as_chain_of_deltas");
                }
                let items: Vec<(Key, Vec<u32>, bool)> = steps.into_iter().flat_map(|units| self.order(units, shuffle)).collect();
                let items = Arc::new(items);
                let implicit = self.inner.lock().unwrap().implicit_max_len;
                let payloads = items
                    .iter()
                    .map(|(k, v, ann)| (to_payload_spelled(k, v, implicit && self.ctx.chance(1, 2)), if *ann { Action::Announce } else { Action::Withdraw }))
                    .collect();
                let mut i = self.inner.lock().unwrap();
                i.calls.push(SourceCall { clone_id: self.clone_id, kind: CallKind::Diff(from, Some(key)), items: items.clone() });
                self.ctx.progress();
                self.ctx.ev(22, from.1 as u64 ^ ((key.1 as u64) << 32), || {
                    format!(
                        "source.diff({:04x}/#{}) by conn {} -> {:04x}/#{} ({} items)",
                        from.0, from.1, self.clone_id, key.0, key.1, items.len()
                    )
                });
                Some((mk_state(key), VecDiff { items: payloads, pos: 0 }))
            }
        }
    }

    fn timing(&self) -> Timing {
        let mut i = self.inner.lock().unwrap();
        let t = i.timing;
        i.calls.push(SourceCall { clone_id: self.clone_id, kind: CallKind::Timing(t), items: Arc::new(Vec::new()) });
        self.ctx.progress();
        Timing { refresh: t.0, retry: t.1, expire: t.2 }
    }
}

//------------ ModelTarget ------------------------------------------------------

/// One update handed to the target.
#[derive(Clone, Debug)]
pub struct AppliedUpdate {
    pub reset: bool,
    pub items: Vec<(bool, Key, Vec<u32>)>,
    pub timing: (u32, u32, u32),
    pub duplicate_announce: u32,
    pub unknown_withdraw: u32,
}

#[derive(Default)]
pub struct TargetInner {
    pub data: DataSet,
    pub applied: Vec<AppliedUpdate>,
    pub started: u64,
    /// Fault injection: 1-in-n chance that `apply` fails with an internal
    /// error (nothing applied) / that `push_update` rejects an item.
    pub fail_apply: u64,
    pub fail_push: u64,
    pub ctx: Option<Arc<SimCtx>>,
    pub rejected_applies: u64,
    pub rejected_pushes: u64,
    /// The same data kept the way many real targets keep it: a hash set of
    /// the library's own `Payload` values, relying on their `Eq`/`Hash`.
    pub shadow: std::collections::HashSet<Payload>,
    /// ... and the way other targets keep it: an ordered set relying on `Ord`.
    pub shadow_ord: std::collections::BTreeSet<Payload>,
    /// First observed breach of the Eq/Hash law: an element equal (by the
    /// library's `Eq`) to the looked-up item exists but the hash lookup
    /// misses it, or the other way round.
    pub identity_law_broken: Option<String>,
    /// First update for which the library's `PayloadUpdate for Vec` collected
    /// something else than what was pushed.
    pub lib_vec_mismatch: Option<String>,
    /// Set while a router drives `Client::run()`: called at the end of every
    /// successful `apply`, returns (octets the client has consumed from its
    /// connection, number of source calls logged). Together with a copy of
    /// the data it lets the steps completed inside `run()` be judged one by
    /// one afterwards.
    pub mark_fn: Option<Box<dyn Fn() -> (usize, usize) + Send>>,
    pub marks: Vec<(usize, usize, DataSet)>,
}

impl TargetInner {
    /// Installs `set` as the previous data (both representations). Origins
    /// whose max length equals the prefix length are stored without an
    /// explicit max length where `implicit` says so: the same item, spelled
    /// the other way.
    pub fn seed(&mut self, set: DataSet, mut implicit: impl FnMut() -> bool) {
        self.shadow.clear();
        self.shadow_ord.clear();
        for (k, v) in &set {
            let p = match k {
                Key::Origin { v6, addr, plen, maxlen, asn } if plen == maxlen && implicit() => {
                    let prefix = if *v6 {
                        Prefix::new_v6(Ipv6Addr::from(*addr), *plen)
                    } else {
                        Prefix::new_v4(Ipv4Addr::from(*addr as u32), *plen)
                    }
                    .expect("model prefixes are canonical");
                    Payload::origin(MaxLenPrefix::new(prefix, None).expect("no max-len"), Asn::from_u32(*asn))
                }
                _ => to_payload(k, v),
            };
            self.shadow_ord.insert(p.clone());
            self.shadow.insert(p);
        }
        self.data = set;
    }

    /// The shadow set in model terms.
    pub fn shadow_as_dataset(&self) -> DataSet {
        self.shadow.iter().map(from_payload).collect()
    }
}

/// Recording target. It is lenient (set semantics) so that a completed step
/// can always be compared with the model; strictness anomalies are counted.
#[derive(Clone, Default)]
pub struct ModelTarget(pub Arc<Mutex<TargetInner>>);

pub struct ModelUpdate {
    reset: bool,
    items: Vec<(bool, Key, Vec<u32>)>,
    raw: Vec<(bool, Payload)>,
    /// The same update collected by the library's own `PayloadUpdate`
    /// implementation (`Vec<(Action, Payload)>`), as a simple target would.
    lib_vec: Vec<(Action, Payload)>,
    target: Arc<Mutex<TargetInner>>,
}

impl rpki::rtr::client::PayloadUpdate for ModelUpdate {
    fn push_update(&mut self, action: Action, payload: Payload) -> Result<(), PayloadError> {
        {
            let mut t = self.target.lock().unwrap();
            if t.fail_push > 0 {
                let n = t.fail_push;
                if t.ctx.as_ref().map(|c| c.choose(n) == n - 1).unwrap_or(false) {
                    t.rejected_pushes += 1;
                    return Err(PayloadError::Corrupt);
                }
            }
        }
        let (k, v) = from_payload(&payload);
        self.items.push((action.is_announce(), k, v));
        <Vec<(Action, Payload)> as rpki::rtr::client::PayloadUpdate>::push_update(&mut self.lib_vec, action, payload.clone())?;
        self.raw.push((action.is_announce(), payload));
        Ok(())
    }
}

impl PayloadTarget for ModelTarget {
    type Update = ModelUpdate;

    fn start(&mut self, reset: bool) -> Self::Update {
        self.0.lock().unwrap().started += 1;
        ModelUpdate { reset, items: Vec::new(), raw: Vec::new(), lib_vec: Vec::new(), target: self.0.clone() }
    }

    fn apply(&mut self, update: Self::Update, timing: Timing) -> Result<(), PayloadError> {
        let mut t = self.0.lock().unwrap();
        if t.fail_apply > 0 {
            let n = t.fail_apply;
            if t.ctx.as_ref().map(|c| c.choose(n) == n - 1).unwrap_or(false) {
                t.rejected_applies += 1;
                return Err(PayloadError::Internal);
            }
        }
        // a target that collects its update in the library's own `PayloadUpdate
        // for Vec` and folds that list must end up with the same data
        let mut via_vec: DataSet = if update.reset { DataSet::new() } else { t.data.clone() };
        for (action, p) in &update.lib_vec {
            let (k, v) = from_payload(p);
            if action.is_announce() {
                via_vec.insert(k, v);
            } else {
                via_vec.remove(&k);
            }
        }
        if update.reset {
            t.data.clear();
            t.shadow.clear();
            t.shadow_ord.clear();
        }
        for (announce, p) in &update.raw {
            match p {
                Payload::Aspa(a) => {
                    let customer = a.customer;
                    t.shadow.retain(|x| !matches!(x, Payload::Aspa(y) if y.customer == customer));
                    t.shadow_ord.retain(|x| !matches!(x, Payload::Aspa(y) if y.customer == customer));
                    if *announce {
                        t.shadow.insert(p.clone());
                        t.shadow_ord.insert(p.clone());
                    }
                }
                _ => {
                    // the ordered set: "an equal element exists" (Eq, linear
                    // scan) and "the ordered lookup finds one" (Ord) must agree
                    let ord_by_eq = t.shadow_ord.iter().any(|x| x == p);
                    let ord_by_cmp = t.shadow_ord.contains(p);
                    if ord_by_eq != ord_by_cmp && t.identity_law_broken.is_none() {
                        t.identity_law_broken = Some(format!(
                            "{:?}: an equal element {} in the ordered set by Eq, but the lookup by Ord says {}",
                            from_payload(p).0,
                            if ord_by_eq { "is" } else { "is not" },
                            if ord_by_cmp { "present" } else { "absent" }
                        ));
                    }
                    if *announce {
                        t.shadow_ord.replace(p.clone());
                    } else {
                        t.shadow_ord.remove(p);
                    }
                    let by_eq = t.shadow.iter().any(|x| x == p);
                    let by_hash = t.shadow.contains(p);
                    if by_eq != by_hash && t.identity_law_broken.is_none() {
                        t.identity_law_broken = Some(format!(
                            "{:?}: an equal element {} in the set by Eq, but the hash lookup says {}",
                            from_payload(p).0,
                            if by_eq { "is" } else { "is not" },
                            if by_hash { "present" } else { "absent" }
                        ));
                    }
                    if *announce {
                        t.shadow.replace(p.clone());
                    } else {
                        t.shadow.remove(p);
                    }
                }
            }
        }
        let mut dup = 0;
        let mut unk = 0;
        for (announce, k, v) in &update.items {
            if *announce {
                let is_aspa = matches!(k, Key::Aspa { .. });
                if t.data.insert(k.clone(), v.clone()).is_some() && !is_aspa {
                    dup += 1;
                }
            } else if t.data.remove(k).is_none() {
                unk += 1;
            }
        }
        if via_vec != t.data && t.lib_vec_mismatch.is_none() {
            t.lib_vec_mismatch = Some(format!(
                "folding the list collected by the library's PayloadUpdate for Vec ({} entries) gives {} items, folding what was pushed ({} entries) gives {}",
                update.lib_vec.len(), via_vec.len(), update.items.len(), t.data.len()
            ));
        }
        t.applied.push(AppliedUpdate {
            reset: update.reset,
            items: update.items,
            timing: (timing.refresh, timing.retry, timing.expire),
            duplicate_announce: dup,
            unknown_withdraw: unk,
        });
        let mark = t.mark_fn.as_ref().map(|f| f());
        if let Some((n_read, calls)) = mark {
            let data = t.data.clone();
            t.marks.push((n_read, calls, data));
        }
        Ok(())
    }
}
