//! Simulated synchronous streams: a faulty/hostile `BufRead` and a faulty
//! `Write`, plus a thread-local counting allocator for heap measurements.

use std::alloc::{GlobalAlloc, Layout, System};
use std::cell::Cell;
use std::io;
use std::sync::Arc;
use crate::common::SimCtx;

//------------ Counting allocator -------------------------------------------------

pub struct CountingAlloc;

thread_local! {
    static LIVE: Cell<isize> = const { Cell::new(0) };
    static PEAK: Cell<isize> = const { Cell::new(0) };
}

unsafe impl GlobalAlloc for CountingAlloc {
    unsafe fn alloc(&self, layout: Layout) -> *mut u8 {
        let p = System.alloc(layout);
        if !p.is_null() {
            note(layout.size() as isize);
        }
        p
    }
    unsafe fn alloc_zeroed(&self, layout: Layout) -> *mut u8 {
        let p = System.alloc_zeroed(layout);
        if !p.is_null() {
            note(layout.size() as isize);
        }
        p
    }
    unsafe fn dealloc(&self, ptr: *mut u8, layout: Layout) {
        System.dealloc(ptr, layout);
        note(-(layout.size() as isize));
    }
    unsafe fn realloc(&self, ptr: *mut u8, layout: Layout, new_size: usize) -> *mut u8 {
        let p = System.realloc(ptr, layout, new_size);
        if !p.is_null() {
            note(new_size as isize - layout.size() as isize);
        }
        p
    }
}

#[inline]
fn note(delta: isize) {
    let _ = LIVE.try_with(|l| {
        let v = l.get() + delta;
        l.set(v);
        if delta > 0 {
            let _ = PEAK.try_with(|p| {
                if v > p.get() {
                    p.set(v);
                }
            });
        }
    });
}

/// Starts a heap measurement on this thread: returns the current live bytes.
pub fn heap_mark() -> isize {
    let live = LIVE.with(|l| l.get());
    PEAK.with(|p| p.set(live));
    live
}

/// Peak heap growth on this thread since `mark`.
pub fn heap_peak_since(mark: isize) -> usize {
    let peak = PEAK.with(|p| p.get());
    (peak - mark).max(0) as usize
}

//------------ Byte generators ---------------------------------------------------

/// Where the bytes of a simulated input stream come from.
pub enum Gen {
    /// A finite document.
    Finite { data: Arc<Vec<u8>>, pos: usize },
    /// A valid prefix followed by a lazily generated run of `unit` repeated,
    /// up to `max` bytes in total, then EOF.
    Hostile { prefix: Arc<Vec<u8>>, unit: Vec<u8>, pos: u64, max: u64 },
    /// A sequence of sections, each either literal bytes or a repeated unit of
    /// a given total length (`None`: endless, only sensible for the last one),
    /// up to `max` bytes in total, then EOF.
    Sections { sections: Vec<Section>, pos: u64, max: u64 },
}

pub enum Section {
    Bytes(Arc<Vec<u8>>),
    Repeat { unit: Vec<u8>, len: Option<u64> },
}

impl Section {
    fn len(&self) -> Option<u64> {
        match self {
            Section::Bytes(b) => Some(b.len() as u64),
            Section::Repeat { len, .. } => *len,
        }
    }
}

impl Gen {
    fn next(&mut self, n: usize, out: &mut Vec<u8>) {
        out.clear();
        match self {
            Gen::Finite { data, pos } => {
                let end = (*pos + n).min(data.len());
                out.extend_from_slice(&data[*pos..end]);
                *pos = end;
            }
            Gen::Sections { sections, pos, max } => {
                let mut want = (n as u64).min(max.saturating_sub(*pos));
                out.reserve(want as usize);
                let mut start = 0u64; // offset of the current section
                for sec in sections.iter() {
                    if want == 0 {
                        break;
                    }
                    let slen = sec.len();
                    let end = slen.map(|l| start + l);
                    if let Some(e) = end {
                        if *pos >= e {
                            start = e;
                            continue;
                        }
                    }
                    let off = *pos - start;
                    let avail = slen.map(|l| l - off).unwrap_or(u64::MAX);
                    let take = want.min(avail);
                    match sec {
                        Section::Bytes(b) => out.extend_from_slice(&b[off as usize..(off + take) as usize]),
                        Section::Repeat { unit, .. } => {
                            let ulen = unit.len();
                            let mut phase = (off % ulen as u64) as usize;
                            let mut left = take as usize;
                            while left > 0 {
                                let t = (ulen - phase).min(left);
                                out.extend_from_slice(&unit[phase..phase + t]);
                                left -= t;
                                phase = 0;
                            }
                        }
                    }
                    *pos += take;
                    want -= take;
                    match end {
                        Some(e) => start = e,
                        None => break,
                    }
                }
            }
            Gen::Hostile { prefix, unit, pos, max } => {
                let mut want = (n as u64).min(max.saturating_sub(*pos)) as usize;
                let plen = prefix.len() as u64;
                if *pos < plen && want > 0 {
                    let start = *pos as usize;
                    let end = (start + want).min(prefix.len());
                    out.extend_from_slice(&prefix[start..end]);
                    want -= end - start;
                    *pos += (end - start) as u64;
                }
                if want > 0 {
                    let ulen = unit.len();
                    let mut phase = ((*pos - plen) % ulen as u64) as usize;
                    *pos += want as u64;
                    // bulk fill
                    out.reserve(want);
                    while want > 0 {
                        let take = (ulen - phase).min(want);
                        out.extend_from_slice(&unit[phase..phase + take]);
                        want -= take;
                        phase = 0;
                    }
                }
            }
        }
    }
}

//------------ SimBufRead ---------------------------------------------------------

#[derive(Clone, Copy, Debug)]
pub struct ReadCfg {
    /// 0: chunks of `chunk_max`; 1: one byte at a time; 2: tape-chosen 1..=chunk_max
    pub mode: u8,
    pub chunk_max: usize,
    /// 1-in-n chance of `ErrorKind::Interrupted` per fill_buf (0 = never).
    pub eintr: u64,
    /// Hard error once this many bytes were handed out.
    pub fail_at: Option<u64>,
    /// Read-bound monitor: violation when more than this many bytes are pulled.
    pub bound: Option<u64>,
}

pub struct SimBufRead {
    gen: Gen,
    buf: Vec<u8>,
    pos: usize,
    ctx: Arc<SimCtx>,
    pub cfg: ReadCfg,
    /// Bytes consumed by the reader.
    pub pulled: u64,
    /// Bytes handed out via fill_buf (>= pulled).
    pub exposed: u64,
    pub eintr_fired: u64,
    pub hard_error_fired: bool,
    pub bound_breached: Option<u64>,
    pub fill_calls: u64,
    pub eof_seen: bool,
    /// Bytes consumed beyond what fill_buf had exposed (contract breach).
    pub over_consumed: u64,
}

impl SimBufRead {
    pub fn new(ctx: &Arc<SimCtx>, gen: Gen, cfg: ReadCfg) -> Self {
        SimBufRead {
            gen,
            buf: Vec::new(),
            pos: 0,
            ctx: ctx.clone(),
            cfg,
            pulled: 0,
            exposed: 0,
            eintr_fired: 0,
            hard_error_fired: false,
            bound_breached: None,
            fill_calls: 0,
            eof_seen: false,
            over_consumed: 0,
        }
    }
}

impl io::BufRead for SimBufRead {
    fn fill_buf(&mut self) -> io::Result<&[u8]> {
        self.fill_calls += 1;
        self.ctx.tick();
        if let Some(b) = self.cfg.bound {
            if self.pulled > b {
                if self.bound_breached.is_none() {
                    self.bound_breached = Some(self.pulled);
                }
                return Err(io::Error::other("simulator: read bound breached"));
            }
        }
        if self.pos < self.buf.len() {
            return Ok(&self.buf[self.pos..]);
        }
        if self.cfg.eintr > 0 && self.ctx.choose(self.cfg.eintr) == self.cfg.eintr - 1 {
            self.eintr_fired += 1;
            return Err(io::Error::new(io::ErrorKind::Interrupted, "simulated EINTR"));
        }
        if let Some(at) = self.cfg.fail_at {
            if self.exposed >= at {
                self.hard_error_fired = true;
                // any kind a reader may report - except Interrupted, which a
                // consumer must retry (and this error persists)
                const KINDS: [io::ErrorKind; 6] = [
                    io::ErrorKind::ConnectionReset, io::ErrorKind::UnexpectedEof, io::ErrorKind::TimedOut,
                    io::ErrorKind::WouldBlock, io::ErrorKind::Other, io::ErrorKind::InvalidData,
                ];
                return Err(io::Error::new(KINDS[(at % 6) as usize], "simulated read error"));
            }
        }
        let mut n = match self.cfg.mode {
            0 => self.cfg.chunk_max,
            1 => 1,
            _ => 1 + self.ctx.choose(self.cfg.chunk_max as u64) as usize,
        };
        if let Some(at) = self.cfg.fail_at {
            n = n.min((at - self.exposed) as usize).max(1);
        }
        self.gen.next(n, &mut self.buf);
        self.pos = 0;
        self.exposed += self.buf.len() as u64;
        if self.buf.is_empty() {
            self.eof_seen = true;
        }
        Ok(&self.buf[..])
    }

    fn consume(&mut self, amt: usize) {
        let avail = self.buf.len() - self.pos;
        if amt > avail {
            self.over_consumed += (amt - avail) as u64;
        }
        let amt = amt.min(avail);
        self.pos += amt;
        self.pulled += amt as u64;
    }
}

impl io::Read for SimBufRead {
    fn read(&mut self, out: &mut [u8]) -> io::Result<usize> {
        use io::BufRead;
        let avail = self.fill_buf()?;
        let n = avail.len().min(out.len());
        out[..n].copy_from_slice(&avail[..n]);
        self.consume(n);
        Ok(n)
    }
}

//------------ SimWrite -----------------------------------------------------------

#[derive(Clone, Copy, Debug, PartialEq, Eq)]
pub enum WriteFault {
    None,
    /// Exactly the call with this index fails (later calls succeed).
    Transient(u64),
    /// Every call from this index on fails.
    Sticky(u64),
}

#[derive(Clone, Copy, Debug)]
pub struct WriteCfg {
    pub short_writes: bool,
    /// 1-in-n chance of `ErrorKind::Interrupted` per write call (0 = never).
    pub eintr: u64,
    pub fault: WriteFault,
    pub fault_kind: io::ErrorKind,
}

pub struct SimWrite {
    ctx: Arc<SimCtx>,
    pub cfg: WriteCfg,
    pub accepted: Vec<u8>,
    pub calls: u64,
    /// Indices of calls that returned a non-EINTR error.
    pub failed_calls: Vec<u64>,
    pub eintr_fired: u64,
    pub short_fired: u64,
}

impl SimWrite {
    pub fn new(ctx: &Arc<SimCtx>, cfg: WriteCfg) -> Self {
        SimWrite { ctx: ctx.clone(), cfg, accepted: Vec::new(), calls: 0, failed_calls: Vec::new(), eintr_fired: 0, short_fired: 0 }
    }
}

impl io::Write for SimWrite {
    fn write(&mut self, data: &[u8]) -> io::Result<usize> {
        self.ctx.tick();
        let idx = self.calls;
        self.calls += 1;
        if self.cfg.eintr > 0 && self.ctx.choose(self.cfg.eintr) == self.cfg.eintr - 1 {
            self.eintr_fired += 1;
            return Err(io::Error::new(io::ErrorKind::Interrupted, "simulated EINTR"));
        }
        let fail = match self.cfg.fault {
            WriteFault::None => false,
            WriteFault::Transient(i) => idx == i,
            WriteFault::Sticky(i) => idx >= i,
        };
        if fail {
            self.failed_calls.push(idx);
            return Err(io::Error::new(self.cfg.fault_kind, "simulated write error"));
        }
        if data.is_empty() {
            return Ok(0);
        }
        let n = if self.cfg.short_writes && data.len() > 1 {
            let cut = self.ctx.choose(data.len() as u64) as usize;
            if cut > 0 {
                self.short_fired += 1;
            }
            data.len() - cut
        } else {
            data.len()
        };
        self.accepted.extend_from_slice(&data[..n]);
        Ok(n)
    }

    fn flush(&mut self) -> io::Result<()> {
        Ok(())
    }
}
