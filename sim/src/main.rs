//! rpki-sim: deterministic simulation with fault injection for rpki-rs.
//!
//!   rpki-sim check <C06|C07|C08|C09> [--tier quick|thorough] [--runs N] [--jobs N]
//!   rpki-sim replay <file>
//!   rpki-sim selftest determinism [--seeds N]
//!
//! Environment: VERIF_SEED (default fixed), VERIF_TIER, VERIF_JOBS, VERIF_DIR.
//! Exit: 0 held, 1 violation (prints `VIOLATION property=<id> replay=<path>`),
//! 2 harness error (never a verdict).

mod common;
mod driver;
mod exec;
mod net;
mod rtrcodec;
mod scenario;
mod tape;
mod source;
mod c06;
mod c07;
mod c07c;
mod c08;
mod c09;
mod sio;

#[global_allocator]
static ALLOC: sio::CountingAlloc = sio::CountingAlloc;

use scenario::{Scenario, Tier};

fn scenarios() -> Vec<Box<dyn Scenario>> {
    vec![Box::new(c06::C06), Box::new(c07::C07), Box::new(c08::C08), Box::new(c09::C09)]
}

/// A logger that formats every record and throws the text away: an
/// application usually has one installed, and the `Display`/`Debug`
/// implementations the library uses in its log messages only run then.
struct FormatAll;

impl log::Log for FormatAll {
    fn enabled(&self, _: &log::Metadata) -> bool {
        true
    }
    fn log(&self, record: &log::Record) {
        use std::fmt::Write;
        thread_local! { static BUF: std::cell::RefCell<String> = const { std::cell::RefCell::new(String::new()) }; }
        BUF.with(|b| {
            if let Ok(mut b) = b.try_borrow_mut() {
                b.clear();
                let _ = write!(b, "{}", record.args());
            }
        });
    }
    fn flush(&self) {}
}

static FORMAT_ALL: FormatAll = FormatAll;

fn main() {
    exec::install_quiet_panic_hook();
    let _ = log::set_logger(&FORMAT_ALL);
    log::set_max_level(log::LevelFilter::Trace);
    let args: Vec<String> = std::env::args().skip(1).collect();
    // anything that escapes is a bug of the driver: exit 2, never 101
    let code = match std::panic::catch_unwind(|| real_main(&args)) {
        Ok(c) => c,
        Err(_) => {
            eprintln!("HARNESS ERROR: the driver panicked");
            2
        }
    };
    std::process::exit(code);
}

fn flag(args: &[String], name: &str) -> Option<String> {
    args.iter().position(|a| a == name).and_then(|i| args.get(i + 1).cloned())
}

fn real_main(args: &[String]) -> i32 {
    let scns = scenarios();
    match args.first().map(|s| s.as_str()) {
        Some("check") => {
            let id = match args.get(1) {
                Some(id) => id.clone(),
                None => {
                    eprintln!("usage: rpki-sim check <id> [--tier quick|thorough]");
                    return 2;
                }
            };
            let s = match scns.iter().find(|s| s.id() == id) {
                Some(s) => s,
                None => {
                    eprintln!("no scenario for property {}", id);
                    return 2;
                }
            };
            let tier = flag(args, "--tier")
                .or_else(|| std::env::var("VERIF_TIER").ok())
                .unwrap_or_else(|| "quick".into());
            let tier = match tier.as_str() {
                "quick" => Tier::Quick,
                "thorough" => Tier::Thorough,
                other => {
                    eprintln!("unknown tier {}", other);
                    return 2;
                }
            };
            let seed = std::env::var("VERIF_SEED")
                .ok()
                .and_then(|s| s.trim().parse::<u64>().ok())
                .unwrap_or(driver::DEFAULT_SEED);
            let jobs = flag(args, "--jobs")
                .or_else(|| std::env::var("VERIF_JOBS").ok())
                .and_then(|s| s.parse().ok())
                .unwrap_or_else(|| std::thread::available_parallelism().map(|n| n.get()).unwrap_or(4).min(16));
            let runs_override = flag(args, "--runs").and_then(|s| s.parse().ok());
            let opts = driver::CheckOpts {
                tier,
                seed,
                jobs,
                runs_override,
                write_evidence: !args.iter().any(|a| a == "--no-evidence"),
            };
            driver::check(s.as_ref(), &opts)
        }
        Some("miri-smoke") => match c07::C07.smoke() {
            Ok(n) => {
                println!("miri-smoke: {} cases ok", n);
                0
            }
            Err(v) => {
                println!("miri-smoke: {}: {}", v.ident(), v.detail);
                1
            }
        },
        Some("hashes") => {
            let seed = std::env::var("VERIF_SEED").ok().and_then(|s| s.trim().parse::<u64>().ok()).unwrap_or(driver::DEFAULT_SEED);
            let id = args.get(1).cloned().unwrap_or_default();
            let s = match scns.iter().find(|s| s.id() == id) {
                Some(s) => s,
                None => return 2,
            };
            let from: u64 = args.get(2).and_then(|s| s.parse().ok()).unwrap_or(0);
            let to: u64 = args.get(3).and_then(|s| s.parse().ok()).unwrap_or(0);
            let jobs: usize = flag(args, "--jobs").and_then(|s| s.parse().ok()).unwrap_or(1);
            match driver::hashes(s.as_ref(), seed, from, to, jobs) {
                Ok(v) => {
                    for (i, h) in v {
                        println!("{} {} {}", id, i, h);
                    }
                    0
                }
                Err(e) => {
                    eprintln!("HARNESS ERROR: {}", e);
                    2
                }
            }
        }
        Some("selftest") => {
            let seed = std::env::var("VERIF_SEED").ok().and_then(|s| s.trim().parse::<u64>().ok()).unwrap_or(driver::DEFAULT_SEED);
            let n: u64 = flag(args, "--seeds").and_then(|s| s.parse().ok()).unwrap_or(400);
            driver::selftest_determinism(&scns, seed, n)
        }
        Some("replay") => match args.get(1) {
            Some(p) => driver::replay(&scns, std::path::Path::new(p)),
            None => {
                eprintln!("usage: rpki-sim replay <file>");
                2
            }
        },
        _ => {
            eprintln!("usage: rpki-sim check <id> [--tier quick|thorough] | replay <file> | selftest determinism");
            2
        }
    }
}
