//! rpki-sim: deterministic simulation with fault injection for rpki-rs.
//!
//!   rpki-sim check <C06|C07|C08|C09> [--tier quick|thorough] [--runs N] [--jobs N]
//!   rpki-sim replay <file>
//!   rpki-sim selftest determinism [--seeds N]
//!
//! Environment: VERIF_SEED (default fixed), VERIF_TIER, VERIF_JOBS, VERIF_DIR.
//! Exit: 0 held, 1 violation (prints `VIOLATION property=<id> replay=<path>`),
//! 2 harness error (never a verdict).

mod common;
mod driver;
mod exec;
mod net;
mod rtrcodec;
mod scenario;
mod tape;
mod source;
mod c06;
mod c07;
mod c07c;
mod c08;
mod c09;
mod sio;

#[global_allocator]
static ALLOC: sio::CountingAlloc = sio::CountingAlloc;

use scenario::{Scenario, Tier};

fn scenarios() -> Vec<Box<dyn Scenario>> {
    vec![Box::new(c06::C06), Box::new(c07::C07), Box::new(c08::C08), Box::new(c09::C09)]
}

/// A logger that formats every record and throws the text away: an
/// application usually has one installed, and the `Display`/`Debug`
/// implementations the library uses in its log messages only run then.
struct FormatAll;

impl log::Log for FormatAll {
    fn enabled(&self, _: &log::Metadata) -> bool {
        true
    }
    fn log(&self, record: &log::Record) {
        use std::fmt::Write;
        thread_local! { static BUF: std::cell::RefCell<String> = const { std::cell::RefCell::new(String::new()) }; }
        BUF.with(|b| {
            if let Ok(mut b) = b.try_borrow_mut() {
                b.clear();
                let _ = write!(b, "{}", record.args());
            }
        });
    }
    fn flush(&self) {}
}

static FORMAT_ALL: FormatAll = FormatAll;

fn main() {
    exec::install_quiet_panic_hook();
    let _ = log::set_logger(&FORMAT_ALL);
    log::set_max_level(log::LevelFilter::Trace);
    let args: Vec<String> = std::env::args().skip(1).collect();
    if std::env::var("VERIF_INNER").is_err() && matches!(args.first().map(|s| s.as_str()), Some("check") | Some("replay")) {
        std::process::exit(supervise(&args));
    }
    // anything that escapes is a bug of the driver: exit 2, never 101
    let code = match std::panic::catch_unwind(|| real_main(&args)) {
        Ok(c) => c,
        Err(_) => {
            eprintln!("HARNESS ERROR: the driver panicked");
            2
        }
    };
    std::process::exit(code);
}

/// Prints a line to stdout without panicking when stdout is gone.
fn outln(line: &str) {
    use std::io::Write;
    let out = std::io::stdout();
    let mut out = out.lock();
    let _ = writeln!(out, "{}", line);
    let _ = out.flush();
}

/// Signals that are evidence of the code under test bringing the process
/// down (fault, abort, illegal instruction, arithmetic trap). Anything else -
/// SIGKILL from an OOM killer, SIGTERM, SIGINT, SIGHUP ... - comes from the
/// environment and is never a verdict.
fn is_crash_signal(sig: i32) -> bool {
    matches!(sig, 4 | 5 | 6 | 7 | 8 | 11 | 31)
}

fn signal_name(sig: i32) -> &'static str {
    match sig { 4 => "SIGILL", 5 => "SIGTRAP", 6 => "SIGABRT", 7 => "SIGBUS", 8 => "SIGFPE", 11 => "SIGSEGV", 31 => "SIGSYS", 9 => "SIGKILL", 15 => "SIGTERM", 2 => "SIGINT", _ => "?" }
}

/// Runs a worker process and waits for it; if our own parent disappears in
/// the meantime (a time limit killed `cargo run`, say) the worker is killed
/// and `None` is returned.
fn run_child(cmd: &mut std::process::Command) -> Option<std::process::ExitStatus> {
    let parent = std::os::unix::process::parent_id();
    let mut child = cmd.spawn().ok()?;
    loop {
        match child.try_wait() {
            Ok(Some(st)) => return Some(st),
            Ok(None) => {}
            Err(_) => return None,
        }
        if std::os::unix::process::parent_id() != parent {
            let _ = child.kill();
            let _ = child.wait();
            return None;
        }
        std::thread::sleep(std::time::Duration::from_millis(50));
    }
}

/// `check` and `replay` run in a child process. The code under test can bring
/// a process down in ways that cannot be caught inside it (stack overflow,
/// abort, a fatal fault); the supervising parent turns that into a verdict:
/// for `check` it re-runs the runs that were in flight, one by one in fresh
/// processes, and reports the one that dies again FROM THE SAME SIGNAL as a
/// `crash` violation with a replay file; for `replay` a child dying from such
/// a signal IS the reproduction. Exit codes 0 and 1 are passed through;
/// everything else - also a child killed by the environment - is exit 2.
fn supervise(args: &[String]) -> i32 {
    use std::os::unix::process::ExitStatusExt;
    let exe = match std::env::current_exe() {
        Ok(e) => e,
        Err(_) => return 2,
    };
    let nanos = std::time::SystemTime::now().duration_since(std::time::UNIX_EPOCH).map(|d| d.subsec_nanos()).unwrap_or(0);
    let progress = std::env::temp_dir().join(format!("rpki-sim-progress-{}-{:08x}.bin", std::process::id(), nanos));
    let _ = std::fs::remove_file(&progress);
    let _ = std::fs::write(&progress, vec![0u8; 8 * 80]);
    let status = run_child(std::process::Command::new(&exe).args(args).env("VERIF_INNER", "1").env("VERIF_PROGRESS", &progress));
    let in_flight: Vec<u64> = std::fs::read(&progress)
        .map(|b| b.chunks(8).filter_map(|c| c.try_into().ok().map(u64::from_le_bytes)).filter(|v| *v > 0).map(|v| v - 1).collect())
        .unwrap_or_default();
    let _ = std::fs::remove_file(&progress);
    let status = match status {
        Some(s) => s,
        None => {
            eprintln!("HARNESS ERROR: the worker process could not be run to its end");
            return 2;
        }
    };
    if let Some(code) = status.code() {
        return if code == 0 || code == 1 { code } else { 2 };
    }
    let sig = status.signal().unwrap_or(0);
    if !is_crash_signal(sig) {
        eprintln!("HARNESS ERROR: the worker process was killed from outside (signal {} {}): not a verdict", sig, signal_name(sig));
        return 2;
    }
    let what = format!(
        "the process was brought down by signal {} ({}) while the code under test was running: a stack overflow, an abort or a fatal fault instead of an error value",
        sig, signal_name(sig)
    );
    match args.first().map(|s| s.as_str()) {
        Some("replay") => {
            let path = args.get(1).cloned().unwrap_or_default();
            let prop = std::fs::read_to_string(&path)
                .ok()
                .and_then(|t| serde_json::from_str::<serde_json::Value>(&t).ok())
                .and_then(|d| d["property"].as_str().map(|s| s.to_string()))
                .unwrap_or_default();
            outln(&format!("  => crash:signal-{}: {}", sig, what));
            outln(&format!("VIOLATION property={} replay={}", prop, path));
            1
        }
        _ => {
            let scns = scenarios();
            let id = args.get(1).cloned().unwrap_or_default();
            let s = match scns.iter().find(|s| s.id() == id) {
                Some(s) => s,
                None => return 2,
            };
            let tier = match flag(args, "--tier").or_else(|| std::env::var("VERIF_TIER").ok()).as_deref() {
                Some("thorough") => Tier::Thorough,
                _ => Tier::Quick,
            };
            let seed = std::env::var("VERIF_SEED").ok().and_then(|s| s.trim().parse::<u64>().ok()).unwrap_or(driver::DEFAULT_SEED);
            let mut candidates = in_flight;
            candidates.sort();
            candidates.dedup();
            eprintln!("worker process died with signal {}; re-running the {} runs that were in flight, one by one", sig, candidates.len());
            for idx in candidates {
                let key = format!("signal-{}", sig);
                // under a temporary name until the run is confirmed to die alone
                let final_path = driver::seed_replay_path(s.as_ref(), seed, idx);
                let tmp_path = final_path.with_file_name(format!(".tmp-{}-{}.json", std::process::id(), idx));
                driver::write_seed_replay_to(&tmp_path, s.as_ref(), seed, tier, idx, "crash", &key, &what);
                let out = std::process::Command::new(&exe)
                    .arg("replay")
                    .arg(&tmp_path)
                    .env("VERIF_INNER", "1")
                    .stderr(std::process::Stdio::null())
                    .output();
                // the schedule up to the point of death goes into the replay file
                if let Ok(o) = &out {
                    let lines: Vec<String> = String::from_utf8_lossy(&o.stdout).lines().filter(|l| l.starts_with("  #")).map(|l| l.trim_start().to_string()).collect();
                    driver::attach_log(&tmp_path, &lines);
                }
                let st = out.map(|o| o.status);
                match st {
                    Ok(st) if st.signal() == Some(sig) => {
                        let _ = std::fs::rename(&tmp_path, &final_path);
                        outln(&format!("violation in run {}: crash:{} -- {}", idx, key, what));
                        outln(&format!("  => crash:{}: {}", key, what));
                        outln(&format!("VIOLATION property={} replay={}", s.id(), final_path.display()));
                        return 1;
                    }
                    Ok(st) if st.code() == Some(1) => {
                        // the run violates the property in another way when run alone
                        let _ = std::fs::rename(&tmp_path, &final_path);
                        outln(&format!("violation in run {} (found while looking for the run that brought the process down)", idx));
                        outln(&format!("VIOLATION property={} replay={}", s.id(), final_path.display()));
                        return 1;
                    }
                    _ => {
                        let _ = std::fs::remove_file(&tmp_path);
                    }
                }
            }
            eprintln!("HARNESS ERROR: the worker process died with signal {} but none of the runs in flight does so when run alone", sig);
            2
        }
    }
}

fn flag(args: &[String], name: &str) -> Option<String> {
    args.iter().position(|a| a == name).and_then(|i| args.get(i + 1).cloned())
}

fn real_main(args: &[String]) -> i32 {
    let scns = scenarios();
    match args.first().map(|s| s.as_str()) {
        Some("check") => {
            let id = match args.get(1) {
                Some(id) => id.clone(),
                None => {
                    eprintln!("usage: rpki-sim check <id> [--tier quick|thorough]");
                    return 2;
                }
            };
            let s = match scns.iter().find(|s| s.id() == id) {
                Some(s) => s,
                None => {
                    eprintln!("no scenario for property {}", id);
                    return 2;
                }
            };
            let tier = flag(args, "--tier")
                .or_else(|| std::env::var("VERIF_TIER").ok())
                .unwrap_or_else(|| "quick".into());
            let tier = match tier.as_str() {
                "quick" => Tier::Quick,
                "thorough" => Tier::Thorough,
                other => {
                    eprintln!("unknown tier {}", other);
                    return 2;
                }
            };
            let seed = std::env::var("VERIF_SEED")
                .ok()
                .and_then(|s| s.trim().parse::<u64>().ok())
                .unwrap_or(driver::DEFAULT_SEED);
            let jobs = flag(args, "--jobs")
                .or_else(|| std::env::var("VERIF_JOBS").ok())
                .and_then(|s| s.parse().ok())
                .unwrap_or_else(|| std::thread::available_parallelism().map(|n| n.get()).unwrap_or(4).min(16))
                .max(1);
            let runs_override = flag(args, "--runs").and_then(|s| s.parse().ok());
            let opts = driver::CheckOpts {
                tier,
                seed,
                jobs,
                runs_override,
                write_evidence: !args.iter().any(|a| a == "--no-evidence"),
            };
            driver::check(s.as_ref(), &opts)
        }
        Some("miri-smoke") => match c07::C07.smoke() {
            Ok(n) => {
                println!("miri-smoke: {} cases ok", n);
                0
            }
            Err(v) => {
                println!("miri-smoke: {}: {}", v.ident(), v.detail);
                1
            }
        },
        Some("hashes") => {
            let seed = std::env::var("VERIF_SEED").ok().and_then(|s| s.trim().parse::<u64>().ok()).unwrap_or(driver::DEFAULT_SEED);
            let id = args.get(1).cloned().unwrap_or_default();
            let s = match scns.iter().find(|s| s.id() == id) {
                Some(s) => s,
                None => return 2,
            };
            let from: u64 = args.get(2).and_then(|s| s.parse().ok()).unwrap_or(0);
            let to: u64 = args.get(3).and_then(|s| s.parse().ok()).unwrap_or(0);
            let jobs: usize = flag(args, "--jobs").and_then(|s| s.parse().ok()).unwrap_or(1);
            match driver::hashes(s.as_ref(), seed, from, to, jobs) {
                Ok(v) => {
                    for (i, h) in v {
                        println!("{} {} {}", id, i, h);
                    }
                    0
                }
                Err(e) => {
                    eprintln!("HARNESS ERROR: {}", e);
                    2
                }
            }
        }
        Some("selftest") => {
            let seed = std::env::var("VERIF_SEED").ok().and_then(|s| s.trim().parse::<u64>().ok()).unwrap_or(driver::DEFAULT_SEED);
            let n: u64 = flag(args, "--seeds").and_then(|s| s.parse().ok()).unwrap_or(400);
            driver::selftest_determinism(&scns, seed, n)
        }
        Some("replay") => match args.get(1) {
            Some(p) => driver::replay(&scns, std::path::Path::new(p)),
            None => {
                eprintln!("usage: rpki-sim replay <file>");
                2
            }
        },
        _ => {
            eprintln!("usage: rpki-sim check <id> [--tier quick|thorough] | replay <file> | selftest determinism");
            2
        }
    }
}
