//! Independent RTR wire codec, written from the PDU layouts of RFC 6810,
//! RFC 8210 and draft-ietf-sidrops-8210bis (ASPA PDU). It is the oracle for
//! bytes: nothing in here calls into `rpki::rtr::pdu`.
//!
//! All integers are big-endian. Header: version:u8, type:u8, field:u16,
//! length:u32 (length of the whole PDU including the header).

#[derive(Clone, Debug, PartialEq, Eq, PartialOrd, Ord, Hash)]
pub enum WirePdu {
    SerialNotify { v: u8, session: u16, serial: u32 },
    SerialQuery { v: u8, session: u16, serial: u32 },
    ResetQuery { v: u8 },
    CacheResponse { v: u8, session: u16 },
    Ipv4 { v: u8, flags: u8, plen: u8, maxlen: u8, addr: u32, asn: u32 },
    Ipv6 { v: u8, flags: u8, plen: u8, maxlen: u8, addr: u128, asn: u32 },
    /// `timing` is None in the 12-byte (version 0) layout.
    EndOfData { v: u8, session: u16, serial: u32, timing: Option<(u32, u32, u32)> },
    CacheReset { v: u8 },
    RouterKey { v: u8, flags: u8, ski: [u8; 20], asn: u32, spki: Vec<u8> },
    Error { v: u8, code: u16, pdu: Vec<u8>, text: Vec<u8> },
    Aspa { v: u8, flags: u8, customer: u32, providers: Vec<u32> },
    /// Anything the codec does not know or whose length does not fit the type.
    Unknown { v: u8, ty: u8, field: u16, len: u32, body: Vec<u8> },
}

pub const T_NOTIFY: u8 = 0;
pub const T_SERIAL_QUERY: u8 = 1;
pub const T_RESET_QUERY: u8 = 2;
pub const T_CACHE_RESPONSE: u8 = 3;
pub const T_IPV4: u8 = 4;
pub const T_IPV6: u8 = 6;
pub const T_EOD: u8 = 7;
pub const T_CACHE_RESET: u8 = 8;
pub const T_ROUTER_KEY: u8 = 9;
pub const T_ERROR: u8 = 10;
pub const T_ASPA: u8 = 11;

pub fn header(v: u8, ty: u8, field: u16, len: u32) -> Vec<u8> {
    let mut out = Vec::with_capacity(len as usize);
    out.push(v);
    out.push(ty);
    out.extend_from_slice(&field.to_be_bytes());
    out.extend_from_slice(&len.to_be_bytes());
    out
}

impl WirePdu {
    pub fn version(&self) -> u8 {
        use WirePdu::*;
        match *self {
            SerialNotify { v, .. } | SerialQuery { v, .. } | ResetQuery { v }
            | CacheResponse { v, .. } | Ipv4 { v, .. } | Ipv6 { v, .. }
            | EndOfData { v, .. } | CacheReset { v } | RouterKey { v, .. }
            | Error { v, .. } | Aspa { v, .. } | Unknown { v, .. } => v,
        }
    }

    pub fn type_code(&self) -> u8 {
        use WirePdu::*;
        match *self {
            SerialNotify { .. } => T_NOTIFY,
            SerialQuery { .. } => T_SERIAL_QUERY,
            ResetQuery { .. } => T_RESET_QUERY,
            CacheResponse { .. } => T_CACHE_RESPONSE,
            Ipv4 { .. } => T_IPV4,
            Ipv6 { .. } => T_IPV6,
            EndOfData { .. } => T_EOD,
            CacheReset { .. } => T_CACHE_RESET,
            RouterKey { .. } => T_ROUTER_KEY,
            Error { .. } => T_ERROR,
            Aspa { .. } => T_ASPA,
            Unknown { ty, .. } => ty,
        }
    }

    pub fn is_payload(&self) -> bool {
        matches!(
            self,
            WirePdu::Ipv4 { .. } | WirePdu::Ipv6 { .. } | WirePdu::RouterKey { .. } | WirePdu::Aspa { .. }
        )
    }

    pub fn encode(&self) -> Vec<u8> {
        use WirePdu::*;
        match self {
            SerialNotify { v, session, serial } => {
                let mut o = header(*v, T_NOTIFY, *session, 12);
                o.extend_from_slice(&serial.to_be_bytes());
                o
            }
            SerialQuery { v, session, serial } => {
                let mut o = header(*v, T_SERIAL_QUERY, *session, 12);
                o.extend_from_slice(&serial.to_be_bytes());
                o
            }
            ResetQuery { v } => header(*v, T_RESET_QUERY, 0, 8),
            CacheResponse { v, session } => header(*v, T_CACHE_RESPONSE, *session, 8),
            Ipv4 { v, flags, plen, maxlen, addr, asn } => {
                let mut o = header(*v, T_IPV4, 0, 20);
                o.extend_from_slice(&[*flags, *plen, *maxlen, 0]);
                o.extend_from_slice(&addr.to_be_bytes());
                o.extend_from_slice(&asn.to_be_bytes());
                o
            }
            Ipv6 { v, flags, plen, maxlen, addr, asn } => {
                let mut o = header(*v, T_IPV6, 0, 32);
                o.extend_from_slice(&[*flags, *plen, *maxlen, 0]);
                o.extend_from_slice(&addr.to_be_bytes());
                o.extend_from_slice(&asn.to_be_bytes());
                o
            }
            EndOfData { v, session, serial, timing } => match timing {
                None => {
                    let mut o = header(*v, T_EOD, *session, 12);
                    o.extend_from_slice(&serial.to_be_bytes());
                    o
                }
                Some((refresh, retry, expire)) => {
                    let mut o = header(*v, T_EOD, *session, 24);
                    o.extend_from_slice(&serial.to_be_bytes());
                    o.extend_from_slice(&refresh.to_be_bytes());
                    o.extend_from_slice(&retry.to_be_bytes());
                    o.extend_from_slice(&expire.to_be_bytes());
                    o
                }
            },
            CacheReset { v } => header(*v, T_CACHE_RESET, 0, 8),
            RouterKey { v, flags, ski, asn, spki } => {
                let len = 8 + 20 + 4 + spki.len();
                let mut o = header(*v, T_ROUTER_KEY, (*flags as u16) << 8, len as u32);
                o.extend_from_slice(ski);
                o.extend_from_slice(&asn.to_be_bytes());
                o.extend_from_slice(spki);
                o
            }
            Error { v, code, pdu, text } => {
                let len = 8 + 4 + pdu.len() + 4 + text.len();
                let mut o = header(*v, T_ERROR, *code, len as u32);
                o.extend_from_slice(&(pdu.len() as u32).to_be_bytes());
                o.extend_from_slice(pdu);
                o.extend_from_slice(&(text.len() as u32).to_be_bytes());
                o.extend_from_slice(text);
                o
            }
            Aspa { v, flags, customer, providers } => {
                let len = 8 + 4 + 4 * providers.len();
                let mut o = header(*v, T_ASPA, (*flags as u16) << 8, len as u32);
                o.extend_from_slice(&customer.to_be_bytes());
                for p in providers {
                    o.extend_from_slice(&p.to_be_bytes());
                }
                o
            }
            Unknown { v, ty, field, len, body } => {
                let mut o = header(*v, *ty, *field, *len);
                o.extend_from_slice(body);
                o
            }
        }
    }
}

fn be32(b: &[u8]) -> u32 {
    u32::from_be_bytes([b[0], b[1], b[2], b[3]])
}

/// Result of trying to take one PDU off the front of `buf`.
pub enum Parsed {
    /// A PDU and the number of bytes it occupied.
    Pdu(WirePdu, usize),
    /// Not enough bytes yet for a full PDU.
    Incomplete,
}

/// Takes one PDU off the front of `buf`, framing by the length field.
/// A length below 8 is reported as `Unknown` occupying 8 bytes.
pub fn parse_one(buf: &[u8]) -> Parsed {
    if buf.len() < 8 {
        return Parsed::Incomplete;
    }
    let v = buf[0];
    let ty = buf[1];
    let field = u16::from_be_bytes([buf[2], buf[3]]);
    let len = be32(&buf[4..8]);
    if len < 8 {
        return Parsed::Pdu(
            WirePdu::Unknown { v, ty, field, len, body: Vec::new() },
            8,
        );
    }
    let len_us = len as usize;
    if buf.len() < len_us {
        return Parsed::Incomplete;
    }
    let body = &buf[8..len_us];
    let unknown = || WirePdu::Unknown { v, ty, field, len, body: body.to_vec() };
    let pdu = match ty {
        T_NOTIFY if len == 12 => WirePdu::SerialNotify { v, session: field, serial: be32(body) },
        T_SERIAL_QUERY if len == 12 => WirePdu::SerialQuery { v, session: field, serial: be32(body) },
        T_RESET_QUERY if len == 8 => WirePdu::ResetQuery { v },
        T_CACHE_RESPONSE if len == 8 => WirePdu::CacheResponse { v, session: field },
        T_IPV4 if len == 20 => WirePdu::Ipv4 {
            v,
            flags: body[0],
            plen: body[1],
            maxlen: body[2],
            addr: be32(&body[4..8]),
            asn: be32(&body[8..12]),
        },
        T_IPV6 if len == 32 => {
            let mut a = [0u8; 16];
            a.copy_from_slice(&body[4..20]);
            WirePdu::Ipv6 {
                v,
                flags: body[0],
                plen: body[1],
                maxlen: body[2],
                addr: u128::from_be_bytes(a),
                asn: be32(&body[20..24]),
            }
        }
        T_EOD if len == 12 => WirePdu::EndOfData { v, session: field, serial: be32(body), timing: None },
        T_EOD if len == 24 => WirePdu::EndOfData {
            v,
            session: field,
            serial: be32(body),
            timing: Some((be32(&body[4..8]), be32(&body[8..12]), be32(&body[12..16]))),
        },
        T_CACHE_RESET if len == 8 => WirePdu::CacheReset { v },
        T_ROUTER_KEY if len >= 32 => {
            let mut ski = [0u8; 20];
            ski.copy_from_slice(&body[0..20]);
            WirePdu::RouterKey {
                v,
                flags: (field >> 8) as u8,
                ski,
                asn: be32(&body[20..24]),
                spki: body[24..].to_vec(),
            }
        }
        T_ERROR if len >= 16 => {
            let plen = be32(&body[0..4]) as usize;
            if 4 + plen + 4 > body.len() {
                unknown()
            } else {
                let pdu = body[4..4 + plen].to_vec();
                let tlen = be32(&body[4 + plen..8 + plen]) as usize;
                if 8 + plen + tlen != body.len() {
                    unknown()
                } else {
                    WirePdu::Error { v, code: field, pdu, text: body[8 + plen..].to_vec() }
                }
            }
        }
        T_ASPA if len >= 12 && (len - 12) % 4 == 0 => WirePdu::Aspa {
            v,
            flags: (field >> 8) as u8,
            customer: be32(&body[0..4]),
            providers: body[4..].chunks(4).map(be32).collect(),
        },
        _ => unknown(),
    };
    Parsed::Pdu(pdu, len_us)
}

/// Parses as many whole PDUs as possible; returns them with their byte
/// offsets and the number of bytes consumed.
pub fn parse_stream(buf: &[u8]) -> (Vec<(usize, WirePdu)>, usize) {
    let mut out = Vec::new();
    let mut pos = 0;
    loop {
        match parse_one(&buf[pos..]) {
            Parsed::Pdu(p, n) => {
                out.push((pos, p));
                pos += n;
            }
            Parsed::Incomplete => return (out, pos),
        }
    }
}

pub fn describe(p: &WirePdu) -> String {
    use WirePdu::*;
    match p {
        SerialNotify { v, session, serial } => format!("SerialNotify(v{} s{:04x} #{})", v, session, serial),
        SerialQuery { v, session, serial } => format!("SerialQuery(v{} s{:04x} #{})", v, session, serial),
        ResetQuery { v } => format!("ResetQuery(v{})", v),
        CacheResponse { v, session } => format!("CacheResponse(v{} s{:04x})", v, session),
        Ipv4 { v, flags, plen, maxlen, addr, asn } => {
            format!("Ipv4(v{} f{} {:08x}/{}-{} AS{})", v, flags, addr, plen, maxlen, asn)
        }
        Ipv6 { v, flags, plen, maxlen, addr, asn } => {
            format!("Ipv6(v{} f{} {:032x}/{}-{} AS{})", v, flags, addr, plen, maxlen, asn)
        }
        EndOfData { v, session, serial, timing } => {
            format!("EndOfData(v{} s{:04x} #{} {:?})", v, session, serial, timing)
        }
        CacheReset { v } => format!("CacheReset(v{})", v),
        RouterKey { v, flags, ski, asn, spki } => {
            format!("RouterKey(v{} f{} ski{:02x}{:02x}.. AS{} spki[{}])", v, flags, ski[0], ski[1], asn, spki.len())
        }
        Error { v, code, pdu, text } => {
            format!("Error(v{} code{} pdu[{}] text[{}])", v, code, pdu.len(), text.len())
        }
        Aspa { v, flags, customer, providers } => {
            format!("Aspa(v{} f{} AS{} providers{:?})", v, flags, customer, &providers[..providers.len().min(6)])
        }
        Unknown { v, ty, field, len, body } => {
            format!("Unknown(v{} ty{} field{} len{} body[{}])", v, ty, field, len, body.len())
        }
    }
}
