//! The interface every simulated scenario implements.

use crate::common::RunOut;
use crate::tape::Tape;

#[derive(Clone, Copy, Debug, PartialEq, Eq)]
pub enum Tier {
    Quick,
    Thorough,
}

impl Tier {
    pub fn name(self) -> &'static str {
        match self {
            Tier::Quick => "quick",
            Tier::Thorough => "thorough",
        }
    }
}

/// A run is either one cell of the scenario's deterministic sweep (the cell
/// index fixes the critical parameters, the tape the rest) or a fully random
/// swarm run.
#[derive(Clone, Copy, Debug, PartialEq, Eq)]
pub enum RunKind {
    Sweep(u64),
    Random,
}

pub trait Scenario: Sync + Send {
    /// Property id, e.g. "C07".
    fn id(&self) -> &'static str;
    /// Scenario name, e.g. "rtr-wire".
    fn name(&self) -> &'static str;
    /// Evidence level: "exploration" or "fault_enumeration".
    fn level(&self) -> &'static str;
    /// Number of cells in the deterministic sweep.
    fn sweep_len(&self, tier: Tier) -> u64;
    /// Number of random runs for the tier.
    fn random_runs(&self, tier: Tier) -> u64;
    /// Executes one run. Pure function of (kind, tier, tape contents, code in
    /// /repo). The tier only widens bounds (sizes, counts); it never changes an oracle.
    fn run(&self, kind: RunKind, tier: Tier, tape: Tape, log: bool) -> (RunOut, Tape);
    /// How cases are generated and what counts as non-trivial / distinct.
    fn rule(&self) -> &'static str;
    /// (components running real code, components that are stubs)
    fn components(&self) -> (Vec<&'static str>, Vec<&'static str>);
    fn assumptions(&self) -> Vec<&'static str>;
    /// A batch is vacuous (harness error) if this returns a reason.
    fn vacuous(&self, _totals: &crate::common::Counters) -> Option<String> {
        None
    }
}
