//! Batch driver: runs a scenario's deterministic sweep and seeded random
//! runs on a worker pool, handles violations (known findings, shrinking,
//! replay files), and writes the evidence file.

use std::panic::{catch_unwind, AssertUnwindSafe};
use std::path::{Path, PathBuf};
use std::sync::atomic::{AtomicU64, Ordering};
use std::sync::Mutex;
use std::time::{Duration, Instant};
use serde_json::{json, Value};
use crate::common::{Counters, RunOut, Violation};
use crate::exec::panic_message;
use crate::scenario::{RunKind, Scenario, Tier};
use crate::tape::{self, Tape};

pub const DEFAULT_SEED: u64 = 20260924;

pub fn verif_dir() -> PathBuf {
    if let Ok(d) = std::env::var("VERIF_DIR") {
        return PathBuf::from(d);
    }
    // The binary is run with cwd=/verif (MANIFEST contract); fall back to the
    // location of the manifest relative to the crate.
    let cwd = std::env::current_dir().unwrap_or_else(|_| PathBuf::from("."));
    if cwd.join("properties.jsonl").exists() {
        return cwd;
    }
    if cwd.join("../properties.jsonl").exists() {
        return cwd.join("..");
    }
    PathBuf::from("/verif")
}

//------------ Known findings --------------------------------------------------

#[derive(Clone, Debug)]
pub struct Finding {
    pub property: String,
    pub key: String,
    pub text: String,
}

pub fn load_findings(dir: &Path) -> Vec<Finding> {
    let mut out = Vec::new();
    let text = match std::fs::read_to_string(dir.join("known_findings.txt")) {
        Ok(t) => t,
        Err(_) => return out,
    };
    for line in text.lines() {
        let line = line.trim();
        if !line.starts_with("finding:") {
            continue; // comments and `fixed:` entries suppress nothing
        }
        let rest = line["finding:".len()..].trim();
        let mut property = String::new();
        let mut key = String::new();
        let mut words = rest.split_whitespace();
        let mut consumed = 0;
        for w in words.by_ref() {
            if let Some(p) = w.strip_prefix("property=") {
                property = p.to_string();
                consumed += 1;
            } else if let Some(k) = w.strip_prefix("key=") {
                key = k.to_string();
                consumed += 1;
            } else {
                break;
            }
            if consumed == 2 {
                break;
            }
        }
        let text = rest.splitn(3, char::is_whitespace).nth(2).unwrap_or("").to_string();
        if !property.is_empty() && !key.is_empty() {
            out.push(Finding { property, key, text });
        }
    }
    out
}

fn finding_matches(f: &Finding, property: &str, v: &Violation) -> bool {
    if f.property != property {
        return false;
    }
    let ident = v.ident();
    if let Some(prefix) = f.key.strip_suffix('*') {
        ident.starts_with(prefix)
    } else {
        ident == f.key
    }
}

//------------ Distinct bitmap --------------------------------------------------

struct Bitmap {
    words: Vec<AtomicU64>,
    set: AtomicU64,
}

impl Bitmap {
    fn new(bits_log2: u32) -> Self {
        let n = 1usize << (bits_log2 - 6);
        Bitmap { words: (0..n).map(|_| AtomicU64::new(0)).collect(), set: AtomicU64::new(0) }
    }
    fn insert(&self, sig: u64) {
        let h = tape::mix(&[sig]);
        let nbits = (self.words.len() as u64) * 64;
        let bit = h % nbits;
        let w = (bit / 64) as usize;
        let m = 1u64 << (bit % 64);
        let old = self.words[w].fetch_or(m, Ordering::Relaxed);
        if old & m == 0 {
            self.set.fetch_add(1, Ordering::Relaxed);
        }
    }
    fn count(&self) -> u64 {
        self.set.load(Ordering::Relaxed)
    }
}

//------------ One run ----------------------------------------------------------

//------------ Wall-clock watchdog ---------------------------------------------
//
// The run-away guards of the stubs (poll budgets, reads after end of stream)
// catch busy loops that touch a seam. A loop that never touches one - e.g. a
// parser spinning on an event it keeps getting without reading - would hang a
// worker for ever. Last resort: a detached thread watches how long every run
// has been executing in wall-clock time (normal runs take micro- to
// milliseconds, the heaviest a few seconds); a run over the limit is reported
// as a `hang` violation with a replay file that regenerates the run from
// (seed, run index), and the process exits 1. The limit is not part of any
// oracle decision inside a run.

pub struct WatchMeta {
    pub property: String,
    pub scenario: String,
    pub seed: u64,
    pub tier: &'static str,
    /// Replay file to point to when the stuck run is not a generated one
    /// (a shrink candidate or a replay).
    pub fallback: Option<PathBuf>,
}

struct WatchSlot {
    /// Milliseconds since `T0` at which the current run began (0 = idle).
    started_ms: AtomicU64,
    /// Index of the generated run, `u64::MAX` for shrink candidates / replays.
    run_index: AtomicU64,
    sweep_len: AtomicU64,
    meta: Mutex<Option<WatchMeta>>,
}

static SLOTS: Mutex<Vec<std::sync::Arc<WatchSlot>>> = Mutex::new(Vec::new());
static T0: std::sync::OnceLock<Instant> = std::sync::OnceLock::new();

thread_local! {
    static MY_SLOT: std::sync::Arc<WatchSlot> = {
        let slot = std::sync::Arc::new(WatchSlot {
            started_ms: AtomicU64::new(0),
            run_index: AtomicU64::new(u64::MAX),
            sweep_len: AtomicU64::new(0),
            meta: Mutex::new(None),
        });
        SLOTS.lock().unwrap().push(slot.clone());
        slot
    };
}

fn now_ms() -> u64 {
    T0.get_or_init(Instant::now).elapsed().as_millis() as u64 + 1
}

pub fn watch_set_meta(meta: WatchMeta, sweep_len: u64) {
    MY_SLOT.with(|s| {
        *s.meta.lock().unwrap() = Some(meta);
        s.sweep_len.store(sweep_len, Ordering::SeqCst);
        s.run_index.store(u64::MAX, Ordering::SeqCst);
    });
}

pub fn watch_set_run_index(idx: Option<u64>) {
    MY_SLOT.with(|s| s.run_index.store(idx.unwrap_or(u64::MAX), Ordering::SeqCst));
}

fn wall_limit_ms() -> u64 {
    std::env::var("VERIF_RUN_WALL_LIMIT_S").ok().and_then(|v| v.parse::<u64>().ok()).unwrap_or(120) * 1000
}

/// Starts the detached watchdog thread (once per process).
/// CPU time (user + system) this process has consumed so far, in ms.
fn process_cpu_ms() -> Option<u64> {
    let stat = std::fs::read_to_string("/proc/self/stat").ok()?;
    let rest = &stat[stat.rfind(')')? + 1..];
    let f: Vec<&str> = rest.split_whitespace().collect();
    // after the ")": state is f[0]; utime and stime are fields 14 and 15 of the line
    let utime: u64 = f.get(11)?.parse().ok()?;
    let stime: u64 = f.get(12)?.parse().ok()?;
    Some((utime + stime) * 10)
}

pub fn start_watchdog() {
    static STARTED: std::sync::atomic::AtomicBool = std::sync::atomic::AtomicBool::new(false);
    if STARTED.swap(true, Ordering::SeqCst) {
        return;
    }
    let _ = now_ms();
    let limit = wall_limit_ms();
    // a worker process whose supervising parent is gone (killed by a time
    // limit, say) must not linger
    let supervised = std::env::var("VERIF_INNER").is_ok();
    let parent = std::os::unix::process::parent_id();
    std::thread::spawn(move || {
        // (wall ms, process CPU ms) samples of the recent past: a run only
        // counts as hanging if the process really burnt CPU while it was
        // stuck - a stopped, frozen or starved process is not a loop in the
        // code under test
        let mut samples: std::collections::VecDeque<(u64, u64)> = std::collections::VecDeque::new();
        let mut strikes = 0u32;
        loop {
            std::thread::sleep(Duration::from_millis(500));
            if supervised && std::os::unix::process::parent_id() != parent {
                std::process::exit(2);
            }
            let now = now_ms();
            let cpu_now = process_cpu_ms();
            if let Some(c) = cpu_now {
                samples.push_back((now, c));
                while samples.front().map(|(t, _)| now.saturating_sub(*t) > limit + 30_000).unwrap_or(false) {
                    samples.pop_front();
                }
            }
            let slots: Vec<std::sync::Arc<WatchSlot>> = SLOTS.lock().unwrap().clone();
            for slot in slots {
                let started = slot.started_ms.load(Ordering::SeqCst);
                if started == 0 || now.saturating_sub(started) < limit {
                    continue;
                }
                let idx = slot.run_index.load(Ordering::SeqCst);
                if slot.started_ms.load(Ordering::SeqCst) != started {
                    continue; // the worker moved on meanwhile
                }
                // CPU burnt by the process since that run began
                if let Some(c_now) = cpu_now {
                    let c_then = samples.iter().rev().find(|(t, _)| *t <= started).or(samples.front()).map(|(_, c)| *c).unwrap_or(c_now);
                    if c_now.saturating_sub(c_then) < limit / 2 {
                        // frozen or starved: start the clock again
                        let _ = slot.started_ms.compare_exchange(started, now, Ordering::SeqCst, Ordering::SeqCst);
                        continue;
                    }
                }
                let meta = slot.meta.lock().unwrap();
                let detail = format!(
                    "a run has been executing for more than {} s of wall-clock time (the process consuming CPU all the while) without finishing and without tripping a run-away guard of the simulated streams: the code under test loops without touching its input or output",
                    limit / 1000
                );
                let m = match meta.as_ref() {
                    Some(m) => m,
                    None => {
                        eprintln!("HARNESS ERROR: a run outside any check hangs");
                        std::process::exit(2);
                    }
                };
                let dir = verif_dir();
                let path = if idx != u64::MAX {
                    let sweep_len = slot.sweep_len.load(Ordering::SeqCst);
                    let _ = std::fs::create_dir_all(dir.join("replays"));
                    let path = dir.join("replays").join(format!("{}-{}-{}.json", m.property, m.seed, idx));
                    let tmp = dir.join("replays").join(format!(".tmp-{}-{}.json", std::process::id(), idx));
                    let doc = json!({
                        "property": m.property,
                        "scenario": m.scenario,
                        "seed": m.seed,
                        "tier": m.tier,
                        "run_index": idx,
                        "sweep_index": if idx < sweep_len { json!(idx) } else { Value::Null },
                        "from_seed": true,
                        "tape": Value::Null,
                        "violation": { "class": "hang", "key": "wall-clock", "detail": detail },
                        "log": [],
                        "note": "not minimised: the run cannot be interrupted; replay regenerates the tape from (seed, run index)",
                    });
                    let _ = std::fs::write(&tmp, serde_json::to_string_pretty(&doc).unwrap());
                    // Confirm in a fresh process before this becomes a verdict.
                    let confirmed = std::env::current_exe().ok().and_then(|exe| {
                        std::process::Command::new(exe)
                            .arg("replay")
                            .arg(&tmp)
                            .env("VERIF_DIR", &dir)
                            .env("VERIF_INNER", "1")
                            .stderr(std::process::Stdio::null())
                            .output()
                            .ok()
                    });
                    if let Some(o) = &confirmed {
                        let lines: Vec<String> = String::from_utf8_lossy(&o.stdout).lines().filter(|l| l.starts_with("  #")).map(|l| l.trim_start().to_string()).collect();
                        attach_log(&tmp, &lines);
                    }
                    match confirmed.and_then(|o| o.status.code()) {
                        Some(1) => {
                            let _ = std::fs::rename(&tmp, &path);
                        }
                        other => {
                            // the same run ends in a fresh process: whatever
                            // held it up here was not the code under test
                            let _ = std::fs::remove_file(&tmp);
                            strikes += 1;
                            if strikes >= 3 {
                                eprintln!(
                                    "HARNESS ERROR: run {} exceeded the wall-clock limit of {} s here for the third time, but the same run in a fresh process ended with exit code {:?}: not a verdict",
                                    idx, limit / 1000, other
                                );
                                std::process::exit(2);
                            }
                            let _ = slot.started_ms.compare_exchange(started, now_ms(), Ordering::SeqCst, Ordering::SeqCst);
                            continue;
                        }
                    }
                    path
                } else {
                    m.fallback.clone().unwrap_or_else(|| dir.join("replays").join("unknown.json"))
                };
                use std::io::Write;
                let out = std::io::stdout();
                let mut out = out.lock();
                let _ = writeln!(out, "violation in run {}: hang:wall-clock -- {}", if idx == u64::MAX { "(replay or shrink candidate)".to_string() } else { idx.to_string() }, detail);
                let _ = writeln!(out, "  => hang:wall-clock: {}", detail);
                let _ = writeln!(out, "VIOLATION property={} replay={}", m.property, path.display());
                let _ = out.flush();
                std::process::exit(1);
            }
        }
    });
}

//------------ Progress file (for the supervising parent process) ----------------
//
// A stack overflow or an abort inside the code under test cannot be caught in
// process. `rpki-sim check` therefore runs as a child of a supervising parent
// (main.rs); every worker notes the index of the run it is about to execute in
// a small file, so that the parent knows which runs were in flight when the
// child died and can re-run exactly those, one by one, in fresh processes.

static PROGRESS: std::sync::OnceLock<Option<std::fs::File>> = std::sync::OnceLock::new();

pub fn progress_note(slot: usize, idx: Option<u64>) {
    use std::os::unix::fs::FileExt;
    let file = PROGRESS.get_or_init(|| {
        std::env::var("VERIF_PROGRESS").ok().and_then(|p| std::fs::OpenOptions::new().write(true).create(true).truncate(false).open(p).ok())
    });
    if let Some(f) = file {
        let v = idx.map(|i| i + 1).unwrap_or(0);
        let _ = f.write_at(&v.to_le_bytes(), 8 * slot as u64);
    }
}

/// Puts the event log captured from a replaying child process into a replay file.
pub fn attach_log(path: &Path, lines: &[String]) {
    if let Ok(text) = std::fs::read_to_string(path) {
        if let Ok(mut doc) = serde_json::from_str::<Value>(&text) {
            let n = lines.len();
            let tail: Vec<&String> = lines.iter().skip(n.saturating_sub(400)).collect();
            doc["log"] = json!(tail);
            doc["log_note"] = json!(format!("the last {} of {} events recorded before the run was cut short", tail.len(), n));
            let _ = std::fs::write(path, serde_json::to_string_pretty(&doc).unwrap());
        }
    }
}

pub fn seed_replay_path(s: &dyn Scenario, seed: u64, idx: u64) -> PathBuf {
    let dir = verif_dir();
    let _ = std::fs::create_dir_all(dir.join("replays"));
    dir.join("replays").join(format!("{}-{}-{}.json", s.id(), seed, idx))
}

/// Writes a replay file that regenerates run `idx` from the seed.
pub fn write_seed_replay_to(path: &Path, s: &dyn Scenario, seed: u64, tier: Tier, idx: u64, class: &str, key: &str, detail: &str) {
    let doc = json!({
        "property": s.id(),
        "scenario": s.name(),
        "seed": seed,
        "tier": tier.name(),
        "run_index": idx,
        "sweep_index": match kind_of(s, tier, idx) { RunKind::Sweep(i) => json!(i), RunKind::Random => Value::Null },
        "from_seed": true,
        "tape": Value::Null,
        "violation": { "class": class, "key": key, "detail": detail },
        "log": [],
        "note": "not minimised: the run brings the process down or cannot be interrupted; replay regenerates the tape from (seed, run index)",
    });
    let _ = std::fs::write(path, serde_json::to_string_pretty(&doc).unwrap());
}

pub fn scenario_salt(s: &dyn Scenario) -> u64 {
    crate::common::fnv(s.id().as_bytes())
}

pub fn kind_of(s: &dyn Scenario, tier: Tier, idx: u64) -> RunKind {
    if idx < s.sweep_len(tier) {
        RunKind::Sweep(idx)
    } else {
        RunKind::Random
    }
}

/// Runs once. Scenarios catch panics of the code under test themselves (so
/// that the tape survives); whatever still escapes, and every harness failure
/// recorded by the panic hook (also inside tokio tasks), is a harness error.
pub fn run_guarded(s: &dyn Scenario, kind: RunKind, tier: Tier, tape: Tape, log: bool) -> Result<(RunOut, Vec<u64>), String> {
    let _ = crate::exec::take_harness_fails();
    let _ = crate::exec::take_panics();
    crate::exec::set_in_run(true);
    MY_SLOT.with(|slot| slot.started_ms.store(now_ms(), Ordering::SeqCst));
    let res = catch_unwind(AssertUnwindSafe(|| s.run(kind, tier, tape, log)));
    MY_SLOT.with(|slot| slot.started_ms.store(0, Ordering::SeqCst));
    crate::exec::set_in_run(false);
    let fails = crate::exec::take_harness_fails();
    match res {
        Ok((out, tape)) => {
            if let Some(f) = fails.first() {
                return Err(format!("harness failure inside the run: {}", f));
            }
            Ok((out, tape.rec))
        }
        Err(p) => {
            let msg = panic_message(&p);
            Err(format!("panic escaped the run: {} {}", msg, fails.first().cloned().unwrap_or_default()))
        }
    }
}

struct Found {
    idx: u64,
    violation: Violation,
    tape: Vec<u64>,
}

#[derive(Default)]
struct Totals {
    runs: u64,
    evaluations: u64,
    nontrivial_runs: u64,
    sim_ms: u64,
    counters: Counters,
    known_hits: Vec<(String, u64)>,
}

pub struct CheckOpts {
    pub tier: Tier,
    pub seed: u64,
    pub jobs: usize,
    pub runs_override: Option<u64>,
    pub write_evidence: bool,
}

/// Returns the process exit code.
pub fn check(s: &dyn Scenario, opts: &CheckOpts) -> i32 {
    let start = Instant::now();
    let dir = verif_dir();
    let findings = load_findings(&dir);
    let sweep = s.sweep_len(opts.tier);
    let random = opts.runs_override.unwrap_or_else(|| s.random_runs(opts.tier));
    let total_runs = sweep + random;
    println!(
        "rpki-sim check {} ({}) tier={} VERIF_SEED={} sweep_runs={} random_runs={} jobs={}",
        s.id(), s.name(), opts.tier.name(), opts.seed, sweep, random, opts.jobs
    );

    let next = AtomicU64::new(0);
    let stop_at = AtomicU64::new(u64::MAX);
    let bitmap = Bitmap::new(if opts.tier == Tier::Quick { 27 } else { 31 });
    let found: Mutex<Vec<Found>> = Mutex::new(Vec::new());
    let harness_err: Mutex<Option<String>> = Mutex::new(None);
    let totals: Mutex<Totals> = Mutex::new(Totals::default());
    let salt = scenario_salt(s);

    start_watchdog();
    let meta_for = |fallback: Option<PathBuf>| WatchMeta {
        property: s.id().to_string(),
        scenario: s.name().to_string(),
        seed: opts.seed,
        tier: opts.tier.name(),
        fallback,
    };
    std::thread::scope(|scope| {
        for worker in 0..opts.jobs {
            let (next, stop_at, harness_err, findings, bitmap, found, totals, meta_for) = (&next, &stop_at, &harness_err, &findings, &bitmap, &found, &totals, &meta_for);
            scope.spawn(move || {
                let mut local = Totals::default();
                watch_set_meta(meta_for(None), sweep);
                loop {
                    let idx = next.fetch_add(1, Ordering::SeqCst);
                    if idx >= total_runs || idx >= stop_at.load(Ordering::SeqCst) {
                        break;
                    }
                    if harness_err.lock().unwrap().is_some() {
                        break;
                    }
                    let kind = kind_of(s, opts.tier, idx);
                    let tape = Tape::generate(tape::mix(&[opts.seed, salt, idx]));
                    watch_set_run_index(Some(idx));
                    progress_note(worker, Some(idx));
                    match run_guarded(s, kind, opts.tier, tape, false) {
                        Err(msg) => {
                            *harness_err.lock().unwrap() = Some(format!("run {}: {}", idx, msg));
                            break;
                        }
                        Ok((out, rec)) => {
                            local.runs += 1;
                            local.evaluations += out.evaluations;
                            local.sim_ms += out.sim_ms;
                            local.counters.merge(&out.counters);
                            if out.nontrivial {
                                local.nontrivial_runs += 1;
                                // one signature per run, or - when the run
                                // enumerates sub-cases - one per sub-case
                                if out.sub_sigs.is_empty() {
                                    bitmap.insert(out.sig);
                                } else {
                                    for sg in &out.sub_sigs {
                                        bitmap.insert(*sg);
                                    }
                                }
                            }
                            if let Some(v) = out.violation {
                                if let Some(f) = findings.iter().find(|f| finding_matches(f, s.id(), &v)) {
                                    match local.known_hits.iter_mut().find(|k| k.0 == f.key) {
                                        Some(k) => k.1 += 1,
                                        None => local.known_hits.push((f.key.clone(), 1)),
                                    }
                                } else {
                                    stop_at.fetch_min(idx, Ordering::SeqCst);
                                    found.lock().unwrap().push(Found { idx, violation: v, tape: rec });
                                }
                            }
                        }
                    }
                }
                progress_note(worker, None);
                let mut t = totals.lock().unwrap();
                t.runs += local.runs;
                t.evaluations += local.evaluations;
                t.nontrivial_runs += local.nontrivial_runs;
                t.sim_ms += local.sim_ms;
                t.counters.merge(&local.counters);
                for (k, n) in local.known_hits {
                    match t.known_hits.iter_mut().find(|x| x.0 == k) {
                        Some(x) => x.1 += n,
                        None => t.known_hits.push((k, n)),
                    }
                }
            });
        }
    });

    if let Some(msg) = harness_err.lock().unwrap().take() {
        eprintln!("HARNESS ERROR: {}", msg);
        return 2;
    }
    let totals = totals.into_inner().unwrap();
    let mut found = found.into_inner().unwrap();
    found.sort_by_key(|f| f.idx);
    let wall = start.elapsed().as_secs_f64();

    for (key, n) in &totals.known_hits {
        let text = findings.iter().find(|f| &f.key == key).map(|f| f.text.clone()).unwrap_or_default();
        println!("KNOWN-FINDING: property={} key={} hits={} {}", s.id(), key, n, text);
    }

    // Samples: a few runs replayed with logging on.
    let mut samples = Vec::new();
    let mut sample_idx = vec![0u64];
    if sweep > 1 {
        sample_idx.push(sweep / 2);
    }
    if sweep > 3 {
        sample_idx.push(sweep / 3);
        sample_idx.push(sweep - 1);
    }
    if random > 0 {
        sample_idx.push(sweep);
        sample_idx.push(sweep + random / 2);
        sample_idx.push(sweep + random - 1);
    }
    watch_set_meta(meta_for(None), sweep);
    for idx in sample_idx {
        if idx >= total_runs {
            continue;
        }
        let kind = kind_of(s, opts.tier, idx);
        let tape = Tape::generate(tape::mix(&[opts.seed, salt, idx]));
        watch_set_run_index(Some(idx));
        if let Ok((out, rec)) = run_guarded(s, kind, opts.tier, tape, true) {
            if out.log.is_empty() {
                continue;
            }
            let mut lines = out.log;
            let n = lines.len();
            if n > 30 {
                lines.truncate(30);
                lines.push(format!("... ({} more events)", n - 30));
            }
            samples.push(json!({
                "run_index": idx,
                "kind": format!("{:?}", kind),
                "tape_len": rec.len(),
                "events": lines,
                "evaluations": out.evaluations,
            }));
        }
    }

    let mut exit = 0;
    let mut violation_json = Value::Null;
    if let Some(first) = found.first() {
        exit = 1;
        let kind = kind_of(s, opts.tier, first.idx);
        println!(
            "violation in run {} ({:?}): {} -- {}",
            first.idx, kind, first.violation.ident(), first.violation.detail
        );
        println!("shrinking ({} tape entries) ...", first.tape.len());
        let ident = first.violation.ident();
        {
            // Should a shrink candidate hang in wall-clock time, the watchdog
            // points to this (unminimised) replay file.
            let path = dir.join("replays").join(format!("{}-{}-{}.json", s.id(), opts.seed, first.idx));
            let _ = std::fs::create_dir_all(dir.join("replays"));
            let doc = json!({
                "property": s.id(), "scenario": s.name(), "seed": opts.seed, "tier": opts.tier.name(),
                "run_index": first.idx,
                "sweep_index": match kind { RunKind::Sweep(i) => json!(i), RunKind::Random => Value::Null },
                "tape": first.tape,
                "violation": { "class": first.violation.class, "key": first.violation.key, "detail": first.violation.detail },
                "log": [],
            });
            let _ = std::fs::write(&path, serde_json::to_string_pretty(&doc).unwrap());
            watch_set_meta(meta_for(Some(path)), sweep);
        }
        let shrunk = tape::shrink(
            first.tape.clone(),
            |cand| {
                let t = Tape::replay(cand.to_vec());
                match run_guarded(s, kind, opts.tier, t, false) {
                    Ok((out, rec)) => match out.violation {
                        Some(v) if v.ident() == ident => Some(rec),
                        _ => None,
                    },
                    Err(_) => None,
                }
            },
            Duration::from_secs(60),
        );
        let (final_out, _) = run_guarded(s, kind, opts.tier, Tape::replay(shrunk.clone()), true)
            .unwrap_or_else(|_| (RunOut::default(), Vec::new()));
        let final_violation = final_out.violation.clone().unwrap_or_else(|| first.violation.clone());
        let path = dir.join("replays").join(format!("{}-{}-{}.json", s.id(), opts.seed, first.idx));
        let _ = std::fs::create_dir_all(dir.join("replays"));
        let sweep_index = match kind { RunKind::Sweep(i) => json!(i), RunKind::Random => Value::Null };
        let mut doc = json!({
            "property": s.id(),
            "scenario": s.name(),
            "seed": opts.seed,
            "tier": opts.tier.name(),
            "run_index": first.idx,
            "sweep_index": sweep_index,
            "original_tape_len": first.tape.len(),
            "tape": shrunk,
            "violation": {
                "class": final_violation.class,
                "key": final_violation.key,
                "detail": final_violation.detail,
            },
            "log": final_out.log,
        });
        std::fs::write(&path, serde_json::to_string_pretty(&doc).unwrap()).expect("write replay");
        // replay in a fresh process
        let exe = std::env::current_exe().expect("exe");
        let status = std::process::Command::new(exe)
            .arg("replay")
            .arg(&path)
            .env("VERIF_DIR", &dir)
            .stdout(std::process::Stdio::null())
            .stderr(std::process::Stdio::null())
            .status();
        let reproduced = matches!(status.as_ref().map(|s| s.code()), Ok(Some(1)));
        doc["reproduced_in_fresh_process"] = json!(reproduced);
        std::fs::write(&path, serde_json::to_string_pretty(&doc).unwrap()).expect("write replay");
        println!(
            "minimised to {} tape entries; replay in fresh process reproduced: {}",
            doc["tape"].as_array().map(|a| a.len()).unwrap_or(0),
            reproduced
        );
        for l in doc["log"].as_array().unwrap().iter().rev().take(25).collect::<Vec<_>>().into_iter().rev() {
            println!("  {}", l.as_str().unwrap_or(""));
        }
        println!("  => {}: {}", final_violation.ident(), final_violation.detail);
        println!("VIOLATION property={} replay={}", s.id(), path.display());
        violation_json = json!({
            "class": doc["violation"]["class"],
            "key": doc["violation"]["key"],
            "replay": path.display().to_string(),
            "reproduced_in_fresh_process": reproduced,
            "other_violating_runs_seen": found.len() - 1,
        });
    }

    if exit == 0 {
        if let Some(reason) = s.vacuous(&totals.counters) {
            eprintln!("HARNESS ERROR: vacuous batch: {}", reason);
            return 2;
        }
    }

    // Evidence.
    let (real, stubs) = s.components();
    let mut faults = serde_json::Map::new();
    let mut probes = serde_json::Map::new();
    let mut other = serde_json::Map::new();
    let mut sorted = totals.counters.0.clone();
    sorted.sort();
    for (k, v) in sorted {
        if let Some(name) = k.strip_prefix("fault_") {
            faults.insert(name.to_string(), json!(v));
        } else if let Some(name) = k.strip_prefix("probe_") {
            probes.insert(name.to_string(), json!(v));
        } else {
            other.insert(k.to_string(), json!(v));
        }
    }
    let distinct = bitmap.count();
    let evidence = json!({
        "property_id": s.id(),
        "tier": opts.tier.name(),
        "seed": opts.seed,
        "level": s.level(),
        "coverage": {
            "evaluations": totals.evaluations,
            "distinct_nontrivial": distinct,
            "rule": s.rule(),
            "samples": samples,
            "scenario": s.name(),
            "simulated_runs": totals.runs,
            "sweep_runs": sweep.min(totals.runs),
            "random_runs": totals.runs.saturating_sub(sweep),
            "nontrivial_runs": totals.nontrivial_runs,
            "runs_per_hour": if wall > 0.0 { (totals.runs as f64 / wall * 3600.0) as u64 } else { 0 },
            "seeds_per_hour": if wall > 0.0 { (totals.runs as f64 / wall * 3600.0) as u64 } else { 0 },
            "simulated_time_s": totals.sim_ms as f64 / 1000.0,
            "faults_fired": faults,
            "probes": probes,
            "other_counters": other,
            "components_real_code": real,
            "components_stubbed": stubs,
            "known_findings_hit": totals.known_hits.iter().map(|(k, n)| json!({"key": k, "hits": n})).collect::<Vec<_>>(),
            "violation": violation_json,
            "jobs": opts.jobs,
            "exhaustive": false,
        },
        "assumptions": s.assumptions(),
        "wall_s": wall,
        "violations": found.len(),
    });
    if opts.write_evidence {
        let _ = std::fs::create_dir_all(dir.join("evidence"));
        let path = dir.join("evidence").join(format!("{}.json", s.id()));
        std::fs::write(&path, serde_json::to_string_pretty(&evidence).unwrap()).expect("write evidence");
    }
    println!(
        "{} {}: runs={} evaluations={} distinct_nontrivial>={} sim_time={:.0}s wall={:.1}s violations={} known_finding_hits={}",
        s.id(), s.name(), totals.runs, totals.evaluations, distinct,
        totals.sim_ms as f64 / 1000.0, wall, found.len(),
        totals.known_hits.iter().map(|k| k.1).sum::<u64>()
    );
    exit
}

//------------ Replay -----------------------------------------------------------

/// Replays on a thread with the stack size the workers of `check` have, so
/// that a run that overflows the stack there does so here as well.
pub fn replay(scenarios: &[Box<dyn Scenario>], path: &Path) -> i32 {
    std::thread::scope(|scope| {
        std::thread::Builder::new()
            .stack_size(2 << 20)
            .spawn_scoped(scope, || replay_inner(scenarios, path))
            .map(|h| h.join().unwrap_or(2))
            .unwrap_or(2)
    })
}

fn replay_inner(scenarios: &[Box<dyn Scenario>], path: &Path) -> i32 {
    let text = match std::fs::read_to_string(path) {
        Ok(t) => t,
        Err(e) => {
            eprintln!("cannot read {}: {}", path.display(), e);
            return 2;
        }
    };
    let doc: Value = match serde_json::from_str(&text) {
        Ok(d) => d,
        Err(e) => {
            eprintln!("bad replay file: {}", e);
            return 2;
        }
    };
    let prop = doc["property"].as_str().unwrap_or("");
    let s = match scenarios.iter().find(|s| s.id() == prop) {
        Some(s) => s,
        None => {
            eprintln!("unknown property {}", prop);
            return 2;
        }
    };
    let tape: Vec<u64> = doc["tape"].as_array().map(|a| a.iter().filter_map(|v| v.as_u64()).collect()).unwrap_or_default();
    let from_seed = doc["from_seed"].as_bool().unwrap_or(false);
    start_watchdog();
    watch_set_meta(
        WatchMeta {
            property: s.id().to_string(),
            scenario: s.name().to_string(),
            seed: doc["seed"].as_u64().unwrap_or(0),
            tier: if doc["tier"].as_str() == Some("thorough") { "thorough" } else { "quick" },
            fallback: Some(path.to_path_buf()),
        },
        0,
    );
    let kind = match doc["sweep_index"].as_u64() {
        Some(i) => RunKind::Sweep(i),
        None => RunKind::Random,
    };
    let tier = if doc["tier"].as_str() == Some("thorough") { Tier::Thorough } else { Tier::Quick };
    println!("replaying {} ({}) {:?} tier={} with {} tape entries", s.id(), s.name(), kind, tier.name(), tape.len());
    let tape = if from_seed {
        let idx = doc["run_index"].as_u64().unwrap_or(0);
        println!("(the tape is regenerated from seed {} and run index {})", doc["seed"].as_u64().unwrap_or(0), idx);
        Tape::generate(tape::mix(&[doc["seed"].as_u64().unwrap_or(0), scenario_salt(s.as_ref()), idx]))
    } else {
        Tape::replay(tape)
    };
    crate::common::ECHO_LOG.store(true, Ordering::Relaxed);
    let res = run_guarded(s.as_ref(), kind, tier, tape, true);
    crate::common::ECHO_LOG.store(false, Ordering::Relaxed);
    match res {
        Err(msg) => {
            eprintln!("HARNESS ERROR: {}", msg);
            2
        }
        Ok((out, _)) => {
            match out.violation {
                Some(v) => {
                    let want = format!(
                        "{}{}",
                        doc["violation"]["class"].as_str().unwrap_or(""),
                        match doc["violation"]["key"].as_str() {
                            Some(k) if !k.is_empty() => format!(":{}", k),
                            _ => String::new(),
                        }
                    );
                    println!("  => {}: {}", v.ident(), v.detail);
                    if !want.is_empty() && v.ident() != want {
                        println!("note: recorded violation was {}", want);
                    }
                    println!("VIOLATION property={} replay={}", s.id(), path.display());
                    1
                }
                None => {
                    println!("no violation on this tree (recorded: {})", doc["violation"]["class"]);
                    0
                }
            }
        }
    }
}

//------------ Determinism self-test ----------------------------------------------

/// Hash of everything observable about run `idx`: event log, tape, verdict.
pub fn run_hash(s: &dyn Scenario, tier: Tier, seed: u64, idx: u64) -> Result<u64, String> {
    let kind = kind_of(s, tier, idx);
    let tape = Tape::generate(tape::mix(&[seed, scenario_salt(s), idx]));
    let (out, rec) = run_guarded(s, kind, tier, tape, true)?;
    let mut h = crate::common::fnv(out.log.join("\n").as_bytes());
    for v in &rec {
        h = tape::mix(&[h, *v]);
    }
    h = tape::mix(&[h, out.sig, out.evaluations, out.sim_ms]);
    if let Some(v) = &out.violation {
        h = tape::mix(&[h, crate::common::fnv(v.ident().as_bytes())]);
    }
    Ok(h)
}

/// Prints `id idx hash` for idx in from..to, computed on `jobs` threads.
pub fn hashes(s: &dyn Scenario, seed: u64, from: u64, to: u64, jobs: usize) -> Result<Vec<(u64, u64)>, String> {
    let next = AtomicU64::new(from);
    let out: Mutex<Vec<(u64, u64)>> = Mutex::new(Vec::new());
    let err: Mutex<Option<String>> = Mutex::new(None);
    std::thread::scope(|scope| {
        for _ in 0..jobs.max(1) {
            scope.spawn(|| loop {
                let idx = next.fetch_add(1, Ordering::SeqCst);
                if idx >= to {
                    break;
                }
                match run_hash(s, Tier::Quick, seed, idx) {
                    Ok(h) => out.lock().unwrap().push((idx, h)),
                    Err(e) => {
                        *err.lock().unwrap() = Some(e);
                        break;
                    }
                }
            });
        }
    });
    if let Some(e) = err.into_inner().unwrap() {
        return Err(e);
    }
    let mut v = out.into_inner().unwrap();
    v.sort();
    Ok(v)
}

/// Runs a sample of seeds in this process (1 thread), in this process (16
/// threads) and in 16 concurrent child processes, and compares the hashes.
pub fn selftest_determinism(scenarios: &[Box<dyn Scenario>], seed: u64, per_scenario: u64) -> i32 {
    let exe = std::env::current_exe().expect("exe");
    let mut bad = 0u64;
    for s in scenarios {
        let s = s.as_ref();
        let sweep = s.sweep_len(Tier::Quick);
        // half sweep cells, half random runs
        let from = sweep.saturating_sub(per_scenario / 2);
        let to = from + per_scenario;
        let a = match hashes(s, seed, from, to, 1) {
            Ok(v) => v,
            Err(e) => {
                eprintln!("HARNESS ERROR: {}", e);
                return 2;
            }
        };
        let b = hashes(s, seed, from, to, 16).unwrap_or_default();
        // 16 concurrent child processes, each with 2 threads, on interleaved slices
        let n_children = 16u64;
        let slice = (to - from).div_ceil(n_children);
        let mut children = Vec::new();
        for c in 0..n_children {
            let f = from + c * slice;
            let t = (f + slice).min(to);
            if f >= t {
                continue;
            }
            let child = std::process::Command::new(&exe)
                .args(["hashes", s.id(), &f.to_string(), &t.to_string(), "--jobs", "2"])
                .env("VERIF_SEED", seed.to_string())
                .stdout(std::process::Stdio::piped())
                .spawn()
                .expect("spawn child");
            children.push(child);
        }
        let mut c_all: Vec<(u64, u64)> = Vec::new();
        for child in children {
            let outp = child.wait_with_output().expect("child output");
            for line in String::from_utf8_lossy(&outp.stdout).lines() {
                let mut it = line.split_whitespace();
                if let (Some(_id), Some(i), Some(h)) = (it.next(), it.next(), it.next()) {
                    if let (Ok(i), Ok(h)) = (i.parse(), h.parse()) {
                        c_all.push((i, h));
                    }
                }
            }
        }
        c_all.sort();
        let distinct: std::collections::BTreeSet<u64> = a.iter().map(|x| x.1).collect();
        let ok_b = a == b;
        let ok_c = a == c_all;
        println!(
            "determinism {} ({}): {} runs [{}..{}): 1-thread vs 16-thread {}, vs 16 child processes {}; {} distinct hashes",
            s.id(), s.name(), a.len(), from, to,
            if ok_b { "identical" } else { "DIFFER" },
            if ok_c { "identical" } else { "DIFFER" },
            distinct.len()
        );
        if !ok_b || !ok_c {
            bad += 1;
            for (x, y) in a.iter().zip(b.iter()).chain(a.iter().zip(c_all.iter())) {
                if x != y {
                    println!("  first divergence at run {}: {} vs {}", x.0, x.1, y.1);
                    break;
                }
            }
        }
    }
    if bad > 0 {
        eprintln!("HARNESS ERROR: nondeterministic runs detected");
        2
    } else {
        0
    }
}
