//! C08 — `rtr-server`: RTR server answers depend on the query bytes, not on
//! how they arrive.
//!
//! Real code: `rtr::server::{Server::run, Connection::*, NotifySender,
//! NotifyReceiver}` and the `pdu` writers, on a tokio current-thread runtime
//! with a paused clock. Stubs: `SimListener`, `SimSocket`, `VersionedSource`,
//! a scripted byte-level client owned by the simulator.

use std::sync::Arc;
use rpki::rtr::server::{NotifySender, Server};
use crate::common::{hex, Counters, RunOut, SimCtx, Violation};
use crate::exec::{paused_runtime, take_panics};
use crate::net::{new_pipe, Pipe, SimListener, SimSocket};
use crate::rtrcodec::{self as wire, WirePdu};
use crate::scenario::{RunKind, Scenario, Tier};
use crate::source::{to_wire, CallKind, SourceCall, StateKey, Universe, VersionedSource};
use crate::tape::Tape;

pub struct C08;

//------------ Script -----------------------------------------------------------

#[derive(Clone, Debug)]
enum Unit {
    Serial { v: u8, session: u16, serial: u32 },
    /// `zero` is the header field RFC 8210 calls "zero": senders must set it
    /// to zero, receivers must ignore it (section 5).
    Reset { v: u8, zero: u16 },
    /// An erroneous unit; always last.
    Bad { what: &'static str, bytes: Vec<u8> },
}

impl Unit {
    fn bytes(&self) -> Vec<u8> {
        match self {
            Unit::Serial { v, session, serial } => {
                WirePdu::SerialQuery { v: *v, session: *session, serial: *serial }.encode()
            }
            Unit::Reset { v, zero } => {
                let mut b = WirePdu::ResetQuery { v: *v }.encode();
                b[2..4].copy_from_slice(&zero.to_be_bytes());
                b
            }
            Unit::Bad { bytes, .. } => bytes.clone(),
        }
    }
}

/// What the reference model expects for one unit.
#[derive(Clone, Debug)]
enum Expected {
    /// Cache Response, payload PDUs, End of Data — byte for byte, except
    /// that the End of Data timing may be any value the source reported
    /// around this query (the statement does not fix when it is asked).
    Data(Vec<WirePdu>, Vec<(u32, u32, u32)>),
    CacheReset { v: u8 },
    /// An Error PDU; for the unsupported-version case the code must be 4 and
    /// the version one the server supports.
    Error { unsupported_version: bool },
}

//------------ Sequential reference model ----------------------------------------

/// What the source told the server for one well-formed query.
#[derive(Clone)]
enum Ans {
    /// `ready()` returned false: the query is answered with one Error PDU.
    NotReady,
    /// The Full/Diff call and the timing values reported around it.
    Data(SourceCall, Vec<(u32, u32, u32)>),
}

struct ModelOut {
    /// One entry per query the server must answer, in order.
    expected: Vec<Expected>,
    /// Number of well-formed queries (each must hit the source exactly once).
    well_formed: usize,
    /// The connection is expected to end (client sent an Error PDU).
    ends: bool,
    /// The model stopped at an erroneous unit after which the byte stream is
    /// no longer framed (the server read only its header but the unit is
    /// longer): nothing is specified beyond the Error PDU for it.
    desync: bool,
    /// The byte stream ends inside a Serial Query whose header has been
    /// read: the server is waiting for the serial and (by design) does not
    /// look at notifications until the query is complete.
    stuck_in_query: bool,
}

/// Items of a source answer as the PDUs RFC 8210 prescribes for `version`.
fn answer_pdus(call: &SourceCall, version: u8) -> Vec<WirePdu> {
    call.items
        .iter()
        .filter(|(k, _, _)| k.min_version() <= version)
        .map(|(k, prov, announce)| to_wire(k, prov, version, *announce))
        .collect()
}

fn eod(version: u8, state: StateKey, timing: (u32, u32, u32)) -> WirePdu {
    WirePdu::EndOfData {
        v: version,
        session: state.0,
        serial: state.1,
        timing: if version == 0 { None } else { Some(timing) },
    }
}

/// The record a payload PDU is about: two PDUs about different records can be
/// applied in either order with the same result.
fn record_of(p: &WirePdu) -> WirePdu {
    match p {
        WirePdu::Ipv4 { plen, maxlen, addr, asn, .. } => WirePdu::Ipv4 { v: 0, flags: 0, plen: *plen, maxlen: *maxlen, addr: *addr, asn: *asn },
        WirePdu::Ipv6 { plen, maxlen, addr, asn, .. } => WirePdu::Ipv6 { v: 0, flags: 0, plen: *plen, maxlen: *maxlen, addr: *addr, asn: *asn },
        WirePdu::RouterKey { ski, asn, spki, .. } => WirePdu::RouterKey { v: 0, flags: 0, ski: *ski, asn: *asn, spki: spki.clone() },
        WirePdu::Aspa { customer, .. } => WirePdu::Aspa { v: 0, flags: 0, customer: *customer, providers: Vec::new() },
        other => other.clone(),
    }
}

/// Are two payload PDUs the same statement? (An ASPA withdrawal is about its
/// customer only.)
fn same_statement(want: &WirePdu, got: &WirePdu) -> bool {
    if want == got {
        return true;
    }
    if let (WirePdu::Aspa { v: v1, flags: 0, customer: c1, .. }, WirePdu::Aspa { v: v2, flags: 0, customer: c2, .. }) = (want, got) {
        return v1 == v2 && c1 == c2;
    }
    false
}

/// Compares the payload PDUs of a response with the source's answer: the same
/// statements, those about one record in the source's order. Ok(true) when
/// the listing order differs otherwise. Parsed-equal PDUs must also be laid
/// out as the RFC says (reserved fields).
fn same_payload(want: &[WirePdu], got: &[(usize, &WirePdu)], output: &[u8]) -> Result<bool, (&'static str, String)> {
    let in_order = want.len() == got.len() && want.iter().zip(got.iter()).all(|(w, (_, g))| same_statement(w, g));
    if !in_order {
        if want.len() != got.len() {
            return Err(("", format!(
                "{} payload PDUs, the source's answer has {} for this version; first difference at #{}: got {}, expected {}",
                got.len(), want.len(),
                want.iter().zip(got.iter()).position(|(w, (_, g))| !same_statement(w, g)).unwrap_or(want.len().min(got.len())) + 1,
                got.get(want.iter().zip(got.iter()).position(|(w, (_, g))| !same_statement(w, g)).unwrap_or(want.len().min(got.len()))).map(|g| wire::describe(g.1)).unwrap_or_else(|| "nothing".into()),
                want.get(want.iter().zip(got.iter()).position(|(w, (_, g))| !same_statement(w, g)).unwrap_or(want.len().min(got.len()))).map(wire::describe).unwrap_or_else(|| "nothing".into()),
            )));
        }
        let mut by_record: std::collections::BTreeMap<WirePdu, (Vec<&WirePdu>, Vec<&WirePdu>)> = std::collections::BTreeMap::new();
        for w in want {
            by_record.entry(record_of(w)).or_default().0.push(w);
        }
        for (_, g) in got {
            by_record.entry(record_of(g)).or_default().1.push(g);
        }
        for (rec, (ws, gs)) in &by_record {
            if ws.len() != gs.len() || !ws.iter().zip(gs.iter()).all(|(w, g)| same_statement(w, g)) {
                return Err(("", format!(
                    "about record {}: got [{}], the source's answer has [{}]",
                    wire::describe(rec),
                    gs.iter().map(|g| wire::describe(g)).collect::<Vec<_>>().join(", "),
                    ws.iter().map(|w| wire::describe(w)).collect::<Vec<_>>().join(", "),
                )));
            }
        }
    }
    for (off, g) in got {
        let enc = g.encode();
        let on_wire = &output[*off..(*off + enc.len()).min(output.len())];
        if on_wire != &enc[..] {
            return Err(("bytes", format!("{}: bytes on the wire are {}, RFC layout is {}", wire::describe(g), hex(on_wire), hex(&enc))));
        }
    }
    Ok(!in_order)
}

/// The sequential model: what a server that reads `bytes` front to back and
/// consults the source once per well-formed query must send. `answers` are
/// the logged Full/Diff calls of this connection with the Timing call that
/// followed each; queries beyond the logged answers are reported through
/// `well_formed` only.
fn model(bytes: &[u8], answers: &[Ans]) -> Result<ModelOut, Violation> {
    let mut out = ModelOut { expected: Vec::new(), well_formed: 0, ends: false, desync: false, stuck_in_query: false };
    let mut version: Option<u8> = None;
    let mut pos = 0usize;
    let mut next_answer = 0usize;
    while bytes.len() - pos >= 8 {
        let v = bytes[pos];
        let ty = bytes[pos + 1];
        let session = u16::from_be_bytes([bytes[pos + 2], bytes[pos + 3]]);
        let len = u32::from_be_bytes([bytes[pos + 4], bytes[pos + 5], bytes[pos + 6], bytes[pos + 7]]);
        match version {
            // An erroneous unit gets an Error PDU. The server has read exactly
            // its 8-byte header at that point; if the unit *is* 8 bytes long
            // (length field 8) the stream stays framed and later queries must
            // still be answered, otherwise nothing more is specified.
            Some(cur) if cur != v => {
                out.expected.push(Expected::Error { unsupported_version: false });
                if len == 8 { pos += 8; continue; }
                out.desync = true;
                return Ok(out);
            }
            None if v > 2 => {
                out.expected.push(Expected::Error { unsupported_version: true });
                if len == 8 { pos += 8; continue; }
                out.desync = true;
                return Ok(out);
            }
            None => version = Some(v),
            _ => {}
        }
        match ty {
            wire::T_SERIAL_QUERY => {
                if len != 12 {
                    out.expected.push(Expected::Error { unsupported_version: false });
                    if len == 8 { pos += 8; continue; }
                    out.desync = true;
                    return Ok(out);
                }
                if bytes.len() - pos < 12 {
                    out.stuck_in_query = true;
                    return Ok(out); // incomplete query: no response required
                }
                let serial = u32::from_be_bytes([bytes[pos + 8], bytes[pos + 9], bytes[pos + 10], bytes[pos + 11]]);
                pos += 12;
                out.well_formed += 1;
                if let Some(Ans::NotReady) = answers.get(next_answer) {
                    next_answer += 1;
                    out.expected.push(Expected::Error { unsupported_version: false });
                } else if let Some(Ans::Data(call, timing)) = answers.get(next_answer) {
                    next_answer += 1;
                    match &call.kind {
                        CallKind::Diff(from, res) => {
                            if *from != (session, serial) {
                                return Err(Violation::new(
                                    "corrupted-query",
                                    "serial",
                                    format!(
                                        "query #{} asked for {:04x}/#{} but the server asked the source for {:04x}/#{}",
                                        out.well_formed, session, serial, from.0, from.1
                                    ),
                                ));
                            }
                            match res {
                                Some(state) => {
                                    let mut pdus = vec![WirePdu::CacheResponse { v, session: state.0 }];
                                    pdus.extend(answer_pdus(call, v));
                                    pdus.push(eod(v, *state, timing.first().copied().unwrap_or((0, 0, 0))));
                                    out.expected.push(Expected::Data(pdus, timing.clone()));
                                }
                                None => out.expected.push(Expected::CacheReset { v }),
                            }
                        }
                        other => {
                            return Err(Violation::new(
                                "wrong-source-call",
                                "serial",
                                format!("query #{} is a Serial Query but the server called {:?}", out.well_formed, other),
                            ));
                        }
                    }
                }
            }
            wire::T_RESET_QUERY => {
                if len != 8 {
                    out.expected.push(Expected::Error { unsupported_version: false });
                    out.desync = true;
                    return Ok(out);
                }
                pos += 8;
                out.well_formed += 1;
                if let Some(Ans::NotReady) = answers.get(next_answer) {
                    next_answer += 1;
                    out.expected.push(Expected::Error { unsupported_version: false });
                } else if let Some(Ans::Data(call, timing)) = answers.get(next_answer) {
                    next_answer += 1;
                    match &call.kind {
                        CallKind::Full(state) => {
                            let mut pdus = vec![WirePdu::CacheResponse { v, session: state.0 }];
                            pdus.extend(answer_pdus(call, v));
                            pdus.push(eod(v, *state, timing.first().copied().unwrap_or((0, 0, 0))));
                            out.expected.push(Expected::Data(pdus, timing.clone()));
                        }
                        other => {
                            return Err(Violation::new(
                                "wrong-source-call",
                                "reset",
                                format!("query #{} is a Reset Query but the server called {:?}", out.well_formed, other),
                            ));
                        }
                    }
                }
            }
            wire::T_ERROR => {
                out.ends = true;
                return Ok(out);
            }
            _ => {
                out.expected.push(Expected::Error { unsupported_version: false });
                // The server answers a non-query PDU after its 8-octet header.
                // If the unit IS 8 octets long - its length field says 8, or
                // it is the last thing the client sent - the stream stays framed.
                if len == 8 || bytes.len() - pos == 8 { pos += 8; continue; }
                out.desync = true;
                return Ok(out);
            }
        }
    }
    Ok(out)
}

/// A second connection on the same server: one Reset Query of its own (or
/// nothing at all), then silence.
struct Bystander {
    c2s: Pipe,
    s2c: Pipe,
    version: u8,
    script: Vec<u8>,
    /// Its client never reads and the buffer holds four bytes.
    stalled: bool,
    /// It talks while the main connection does: a script of its own (queries
    /// and erroneous units like the main one's), delivered in fragments
    /// interleaved with everything else. Static class only.
    active: bool,
    sent: usize,
    last_notify_mark: Option<usize>,
}

impl Bystander {
    fn note_notify(&mut self) {
        self.last_notify_mark = Some(self.s2c.lock().unwrap().written.len());
    }
}

/// What one connection did, as handed to the oracle.
struct JudgeIn<'a> {
    /// Bytes the client sent on this connection.
    script: &'a [u8],
    /// Bytes the server wrote on this connection.
    output: &'a [u8],
    pdus: &'a [(usize, WirePdu)],
    used: usize,
    version: u8,
    /// States the source reported through notify() (any connection).
    notified: &'a [StateKey],
    never_ready_seen: bool,
    partial_header_notifies: u64,
    /// Output length of this connection at the last notify() call.
    last_notify_mark: Option<usize>,
    /// One read or write call of the server on this connection was made to
    /// fail: the connection may have ended there. What was written must still
    /// be a correct prefix; nothing more is required.
    io_fault: bool,
}

//------------ The run -----------------------------------------------------------

struct Cfg {
    dynamic: bool,
    version: u8,
    out_cap: usize,
    short_reads: bool,
    short_writes: bool,
    spurious: u64,
    eof_at_end: bool,
}

/// Action weights: index 0 is the simplest ("finish": deliver everything).
const A_FINISH: usize = 0;
const A_YIELD: usize = 1;
const A_DELIVER: usize = 2;
const A_NOTIFY: usize = 3;
const A_UPDATE: usize = 4;
const A_DRAIN: usize = 5;
const A_SPURIOUS: usize = 6;
const A_SENDER_GONE: usize = 7;
const A_CLIENT_EOF: usize = 8;
const A_TOGGLE_READY: usize = 9;
const A_WAIT: usize = 10;
const A_IO_ERROR: usize = 11;
const A_BY_DELIVER: usize = 12;

impl C08 {
    fn gen_script(t: &mut Tape, src: &VersionedSource, cfg: &Cfg, kind: RunKind, tier: Tier) -> Vec<Unit> {
        let v = cfg.version;
        let cur = src.current_state();
        let mut units = Vec::new();
        let n = match kind {
            RunKind::Sweep(_) => 1,
            // now and then a client that pipelines many queries (hundreds of
            // octets, far beyond any fixed-size receive buffer of a few PDUs)
            RunKind::Random if t.chance(1, 16) => 10 + t.choose(31) as usize,
            RunKind::Random if tier == Tier::Thorough => 1 + t.weighted(&[3, 3, 2, 1, 1, 1, 1, 1, 1, 1, 1, 1]),
            RunKind::Random => 1 + t.weighted(&[3, 3, 2, 1, 1, 1]),
        };
        for _ in 0..n {
            let u = match kind {
                RunKind::Sweep(i) if (i / 39) % 2 == 0 => Unit::Reset { v, zero: 0 },
                RunKind::Sweep(_) => Unit::Serial { v, session: cur.0, serial: cur.1 },
                RunKind::Random => match t.choose(5) {
                    // (RFC 8210 section 5: "MUST be ignored on receipt"; RFC 6810 only
                    // says MAY, so version 0 queries keep the field at zero)
                    0 => Unit::Reset { v, zero: if t.chance(1, 4) && v >= 1 { *t.pick(&[1u16, 0x100, 0xffff, 0x0a0b]) } else { 0 } },
                    1 => Unit::Serial { v, session: cur.0, serial: cur.1 },
                    2 => Unit::Serial { v, session: cur.0, serial: cur.1.wrapping_sub(1 + t.choose(3) as u32) },
                    3 => Unit::Serial { v, session: cur.0.wrapping_add(1 + t.choose(5) as u16), serial: cur.1 },
                    _ => Unit::Serial { v, session: cur.0, serial: cur.1.wrapping_add(t.choose(4) as u32).wrapping_sub(1000) },
                },
            };
            units.push(u);
        }
        // Erroneous but *framed* units (exactly 8 bytes, length field 8) may
        // appear anywhere: the queries after them must still be answered.
        if matches!(kind, RunKind::Random) && t.chance(1, 4) {
            let n_framed = 1 + t.choose(2);
            for _ in 0..n_framed {
                let framed = match t.choose(3) {
                    0 => Unit::Bad { what: "framed-unknown-type", bytes: wire::header(v, *t.pick(&[0u8, 3, 4, 5, 7, 8, 9, 11, 12, 255]), t.bits(16) as u16, 8) },
                    1 => Unit::Bad { what: "framed-other-version", bytes: WirePdu::ResetQuery { v: (v + 1 + t.choose(2) as u8) % 3 }.encode() },
                    _ => Unit::Bad { what: "framed-version-too-new", bytes: WirePdu::ResetQuery { v: 3 + t.choose(253) as u8 }.encode() },
                };
                // A PDU of another (supported) version is only unambiguous once
                // a real query has fixed the connection's version.
                let first_ok = if matches!(framed, Unit::Bad { what: "framed-other-version", .. }) {
                    match units.iter().position(|u| matches!(u, Unit::Serial { .. } | Unit::Reset { .. })) {
                        Some(p) => p + 1,
                        None => continue,
                    }
                } else {
                    0
                };
                let at = first_ok + t.choose((units.len() - first_ok) as u64 + 1) as usize;
                units.insert(at, framed);
            }
        }
        if matches!(kind, RunKind::Random) && t.chance(1, 4) {
            let bad = match t.choose(7) {
                // a PDU that is not a query, with any length field (the server
                // has read its 8-octet header when it must answer)
                0 => Unit::Bad { what: "unknown-type", bytes: wire::header(v, *t.pick(&[0u8, 3, 4, 5, 7, 8, 9, 11, 12, 255]), 0, *t.pick(&[8u32, 8, 0, 3, 7, 9, 12, 20, 1000, u32::MAX])) },
                1 => {
                    let mut b = wire::header(v, wire::T_SERIAL_QUERY, cur.0, *t.pick(&[8u32, 11, 13, 16, 0]));
                    b.extend_from_slice(&cur.1.to_be_bytes());
                    Unit::Bad { what: "serial-wrong-length", bytes: b }
                }
                2 => Unit::Bad { what: "reset-wrong-length", bytes: wire::header(v, wire::T_RESET_QUERY, 0, *t.pick(&[12u32, 7, 9, 0])) },
                3 => Unit::Bad {
                    what: "version-switch",
                    bytes: WirePdu::ResetQuery { v: (v + 1 + t.choose(2) as u8) % 3 }.encode(),
                },
                4 => Unit::Bad {
                    what: "client-error-pdu",
                    bytes: WirePdu::Error { v, code: 2, pdu: vec![], text: b"bye".to_vec() }.encode(),
                },
                5 => Unit::Bad { what: "partial-header", bytes: wire::header(v, wire::T_RESET_QUERY, 0, 8)[..(1 + t.choose(7) as usize)].to_vec() },
                _ => {
                    let q = WirePdu::SerialQuery { v, session: cur.0, serial: cur.1 }.encode();
                    Unit::Bad { what: "partial-serial", bytes: q[..(8 + t.choose(4) as usize)].to_vec() }
                }
            };
            units.push(bad);
        }
        units
    }

    async fn run_async(
        &self,
        kind: RunKind,
        tier: Tier,
        ctx: Arc<SimCtx>,
        counters: &mut Counters,
        out: &mut RunOut,
    ) -> Result<(), Violation> {
        let run_start = tokio::time::Instant::now();
        // ---- configuration (swarm) -------------------------------------
        let (cfg, uni, init_set, window, session, serial, first_version_too_new) = {
            let mut t = ctx.tape.lock().unwrap();
            let sweep = matches!(kind, RunKind::Sweep(_));
            let cfg = Cfg {
                dynamic: !sweep && t.chance(1, 2),
                version: match kind { RunKind::Sweep(i) => (i % 3) as u8, RunKind::Random => t.choose(3) as u8 },
                out_cap: if sweep { usize::MAX } else { *t.pick(&[usize::MAX, 1, 5, 8, 20, 64]) },
                short_reads: !sweep && t.chance(1, 3),
                short_writes: !sweep && t.chance(1, 3),
                spurious: if !sweep && t.chance(1, 4) { 4 } else { 0 },
                eof_at_end: t.chance(1, 2),
            };
            let uni = Universe::gen(&mut t);
            let mut cfg = cfg;
            if uni.has_oversized() && cfg.out_cap < 64 {
                cfg.out_cap = 64;
            }
            let set = uni.random_set(&mut t);
            let window = t.choose(4) as usize;
            let session = t.bits(16) as u16;
            let serial = match t.choose(4) { 0 => 0, 1 => u32::MAX, 2 => t.choose(1000) as u32, _ => t.bits(32) as u32 };
            let too_new = !sweep && t.chance(1, 16);
            (cfg, uni, set, window, session, serial, too_new)
        };
        let source = VersionedSource::new(&ctx, session, serial, init_set, window);
        {
            let mut i = source.inner.lock().unwrap();
            let mut t = ctx.tape.lock().unwrap();
            i.shuffle = t.chance(1, 2);
            i.aspa_withdraw_first = t.chance(1, 2);
            i.timing = crate::c06::gen_timing(&mut t);
            if cfg.dynamic && t.chance(1, 4) {
                i.decline_diff = 4;
            }
            i.chained_diff = t.chance(1, 3);
                i.implicit_max_len = t.chance(1, 3);
        }
        // a little history so that in-window serial queries have a diff
        if cfg.dynamic || matches!(kind, RunKind::Random) {
            let n = ctx.choose(3);
            for _ in 0..n {
                let mut set = (*source.inner.lock().unwrap().current).clone();
                uni.mutate(&mut set, &mut ctx.tape.lock().unwrap());
                source.update(set);
            }
        }

        let mut units = {
            let mut t = ctx.tape.lock().unwrap();
            Self::gen_script(&mut t, &source, &cfg, kind, tier)
        };
        if first_version_too_new {
            let v = 3 + ctx.choose(250) as u8;
            units = vec![Unit::Bad { what: "version-too-new", bytes: WirePdu::ResetQuery { v }.encode() }];
        }
        let mut script: Vec<u8> = units.iter().flat_map(|u| u.bytes()).collect();
        ctx.ev(1, units.len() as u64, || {
            format!(
                "script v{} dynamic={} out_cap={} eof={}: {:?} = {}",
                cfg.version, cfg.dynamic, cfg.out_cap as i64, cfg.eof_at_end, units, hex(&script)
            )
        });

        // ---- system under test -------------------------------------------
        let listener = SimListener::new();
        let mut notify = NotifySender::new();
        let server = Server::new(listener.clone(), notify.clone(), source.clone());
        // An application may keep receivers of its own (NotifySender::subscribe
        // is public); one that never reads must not affect the connections.
        let _idle_subscriber = if matches!(kind, RunKind::Random) && ctx.chance(1, 3) {
            counters.bump("fault_idle_extra_subscriber");
            Some(notify.subscribe())
        } else {
            None
        };
        let mut srv = Box::pin(server.run());

        let c2s: Pipe = new_pipe("c->s", true, usize::MAX);
        let s2c: Pipe = new_pipe("s->c", true, cfg.out_cap);
        {
            let mut p = c2s.lock().unwrap();
            p.short_reads = cfg.short_reads;
            p.spurious_pending = cfg.spurious;
            let mut q = s2c.lock().unwrap();
            q.short_writes = cfg.short_writes;
        }
        let sock = SimSocket { rx: c2s.clone(), tx: s2c.clone(), ctx: ctx.clone(), updates: Default::default() };
        // Sometimes the server has a second connection (accepted before or
        // after the main one): connections share the source, the notification
        // channel and the scheduler, nothing else.
        let mut bystander = if matches!(kind, RunKind::Random) && ctx.chance(1, 4) {
            let stalled = ctx.chance(1, 4);
            let version = ctx.choose(3) as u8;
            // Two connections talking at the same time: only with a source that
            // never changes, so that every answer is a function of its query.
            let active = !stalled && !cfg.dynamic && ctx.chance(1, 2);
            let script = if active {
                let by_cfg = Cfg { version, ..cfg };
                let mut t = ctx.tape.lock().unwrap();
                Self::gen_script(&mut t, &source, &by_cfg, kind, tier).iter().flat_map(|u| u.bytes()).collect()
            } else if !stalled && ctx.chance(3, 4) { WirePdu::ResetQuery { v: version }.encode() } else { Vec::new() };
            if active {
                counters.bump("fault_second_connection_active");
            }
            let by = Bystander {
                c2s: new_pipe("c2->s", true, usize::MAX),
                s2c: new_pipe("s->c2", true, if stalled { 4 } else { usize::MAX }),
                version, script, stalled, active, sent: 0, last_notify_mark: None,
            };
            counters.bump(if stalled { "fault_second_connection_stalled" } else { "fault_second_connection" });
            ctx.ev(12, version as u64, || format!("second connection: v{} stalled={} handshake={} active={} script={}", version, stalled, !by.script.is_empty() && !active, active, if active { hex(&by.script) } else { String::new() }));
            Some(by)
        } else {
            None
        };
        let by_sock = bystander.as_ref().map(|by| SimSocket { rx: by.c2s.clone(), tx: by.s2c.clone(), ctx: ctx.clone(), updates: Default::default() });
        match by_sock {
            Some(b) if ctx.chance(1, 2) => { listener.push(b); listener.push(sock); }
            Some(b) => { listener.push(sock); listener.push(b); }
            None => listener.push(sock),
        }
        // The accept loop runs once: the connection is accepted and its task
        // spawned, but that task has not been polled yet.
        let _ = futures_util::poll!(srv.as_mut());
        let mut last_notify_mark: Option<usize> = None;
        if matches!(kind, RunKind::Random) && ctx.chance(1, 6) {
            last_notify_mark = Some(0);
            if let Some(by) = bystander.as_mut() { by.note_notify(); }
            notify.notify();
            counters.bump("fault_notify_before_first_poll_of_connection");
            ctx.ev(3, 0, || "notify (connection accepted, its task not polled yet)".into());
        }
        let server_task = tokio::spawn(srv);
        tokio::task::yield_now().await;
        tokio::task::yield_now().await;
        // The second connection's query is answered before the main client
        // sends anything, so every source call so far is its own.
        if let Some(by) = bystander.as_ref() {
            if !by.script.is_empty() && !by.active {
                by.c2s.lock().unwrap().inject(&by.script);
                let mut n = 0;
                loop {
                    let before = ctx.progress_count();
                    tokio::task::yield_now().await;
                    n += 1;
                    if ctx.progress_count() == before || n > 10_000 { break; }
                }
            }
        }
        let calls_cut = source.inner.lock().unwrap().calls.len();

        // ---- schedule ------------------------------------------------------
        let mut sent = 0usize;
        let mut partial_header_notifies = 0u64;
        let by_active = bystander.as_ref().map(|b| b.active).unwrap_or(false);
        let weights: [u64; 13] = match kind {
            // The sweep drives the grid itself (below).
            RunKind::Sweep(_) => [1, 0, 0, 0, 0, 0, 0, 0, 0, 0, 0, 0, 0],
            RunKind::Random => [
                1,
                6,
                8,
                if ctx.chance(3, 4) { 3 } else { 0 },
                if cfg.dynamic { 2 } else { 0 },
                if cfg.out_cap != usize::MAX { 5 } else { 1 },
                if ctx.chance(1, 3) { 1 } else { 0 },
                if ctx.chance(1, 6) { 1 } else { 0 },
                if ctx.chance(1, 5) { 1 } else { 0 },
                if cfg.dynamic && ctx.chance(1, 3) { 1 } else { 0 },
                if ctx.chance(1, 3) { 1 } else { 0 },
                if ctx.chance(1, 6) { 1 } else { 0 },
                if by_active { 6 } else { 0 },
            ],
        };
        let mut sender_gone = false;
        let mut listener_failed = false;
        let mut io_fault = false;
        let mut closed = false;

        if let RunKind::Sweep(i) = kind {
            // grid: version (i%3) x cut position 0..=12 ((i/3)%13) x query kind
            // ((i/39)%2) x extra yields ((i/78)%3) x notify slot ((i/234)%3:
            // before the cut is read / after the cut is read / none)
            let cut = ((i / 3) % 13) as usize;
            let extra_yields = (i / 78) % 3;
            let slot = (i / 234) % 3;
            let cut = cut.min(script.len());
            if slot == 0 {
                last_notify_mark = Some(s2c.lock().unwrap().written.len());
                notify.notify();
                ctx.ev(3, 0, || "notify (before first bytes)".into());
                counters.bump("fault_notify_while_idle");
            }
            if cut > 0 {
                c2s.lock().unwrap().inject(&script[..cut]);
                sent = cut;
                ctx.ev(2, cut as u64, || format!("deliver {} bytes: {}", cut, hex(&script[..cut])));
            }
            for _ in 0..=extra_yields {
                tokio::task::yield_now().await;
            }
            if (i / 702) % 2 == 1 {
                // second half of the grid: 45 simulated seconds pass after
                // the cut has been delivered
                tokio::time::sleep(std::time::Duration::from_secs(45)).await;
                counters.bump(if cut > 0 && cut < script.len() { "fault_time_passes_inside_a_query" } else { "fault_time_passes" });
                ctx.ev(13, 45_000, || "45000 ms pass".into());
            }
            if slot == 1 {
                let consumed = c2s.lock().unwrap().n_read as usize;
                last_notify_mark = Some(s2c.lock().unwrap().written.len());
                notify.notify();
                ctx.ev(3, consumed as u64, || format!("notify (server has consumed {} bytes of the query)", consumed));
                if consumed > 0 && consumed < 8 {
                    counters.bump("fault_notify_partial_header");
                    partial_header_notifies += 1;
                } else if consumed >= 8 && consumed < script.len() {
                    counters.bump("fault_notify_partial_serial");
                } else {
                    counters.bump("fault_notify_while_idle");
                }
                for _ in 0..=extra_yields {
                    tokio::task::yield_now().await;
                }
            }
        } else {
            let mut steps = 0;
            loop {
                steps += 1;
                if steps > if tier == Tier::Thorough { 1500 } else { 400 } {
                    break;
                }
                let a = ctx.weighted(&weights);
                match a {
                    A_FINISH => break,
                    A_YIELD => {
                        ctx.ev(4, 0, || "yield".into());
                        tokio::task::yield_now().await;
                    }
                    A_DELIVER => {
                        if sent < script.len() {
                            let rem = script.len() - sent;
                            // biased to cut inside headers
                            let n = match ctx.choose(4) {
                                0 => rem,
                                1 => 1,
                                2 => 1 + ctx.choose(rem.min(7) as u64) as usize,
                                _ => 1 + ctx.choose(rem.min(13) as u64) as usize,
                            };
                            c2s.lock().unwrap().inject(&script[sent..sent + n]);
                            ctx.ev(2, n as u64, || format!("deliver {} bytes: {}", n, hex(&script[sent..sent + n])));
                            sent += n;
                            if n < rem {
                                counters.bump("fault_fragmented_delivery");
                            }
                        }
                    }
                    A_NOTIFY if sender_gone => {
                        counters.bump("notify_on_closed_channel");
                    }
                    A_NOTIFY => {
                        let (consumed, inflight) = {
                            let p = c2s.lock().unwrap();
                            (p.n_read as usize, !p.inbox.is_empty())
                        };
                        let blocked_write = s2c.lock().unwrap().writer_waker.is_some();
                        if let Some(by) = bystander.as_mut() { by.note_notify(); }
                        if ctx.chance(1, 5) {
                            // through a short-lived clone of the sender, as an
                            // application with several update sources would
                            counters.bump("probe_notify_through_cloned_sender");
                            notify.clone().notify();
                        } else {
                            notify.notify();
                        }
                        if !closed {
                            last_notify_mark = Some(s2c.lock().unwrap().written.len());
                        }
                        // where does the notify land relative to the byte stream?
                        let off = unit_offset(&units, consumed);
                        ctx.ev(3, off as u64, || {
                            format!("notify (server consumed {} bytes; {} into current unit; unread input: {})", consumed, off, inflight)
                        });
                        if blocked_write {
                            counters.bump("fault_notify_during_blocked_write");
                        } else if off > 0 && off < 8 {
                            counters.bump("fault_notify_partial_header");
                            partial_header_notifies += 1;
                        } else if off >= 8 {
                            counters.bump("fault_notify_partial_serial");
                        } else {
                            counters.bump("fault_notify_while_idle");
                        }
                    }
                    A_UPDATE => {
                        let mut set = (*source.inner.lock().unwrap().current).clone();
                        uni.mutate(&mut set, &mut ctx.tape.lock().unwrap());
                        let blocked_write = s2c.lock().unwrap().writer_waker.is_some();
                        let st = source.update(set);
                        if ctx.chance(1, 6) {
                            let mut i = source.inner.lock().unwrap();
                            i.timing.0 = i.timing.0.wrapping_add(17);
                        }
                        ctx.ev(5, st.1 as u64, || format!("source update -> {:04x}/#{}", st.0, st.1));
                        if blocked_write {
                            counters.bump("fault_update_mid_response");
                        } else {
                            counters.bump("fault_update");
                        }
                        if ctx.chance(3, 4) && !sender_gone {
                            if !closed {
                                last_notify_mark = Some(s2c.lock().unwrap().written.len());
                            }
                            if let Some(by) = bystander.as_mut() { by.note_notify(); }
                            notify.notify();
                            ctx.ev(3, 0, || "notify (after update)".into());
                        }
                    }
                    A_DRAIN => {
                        let mut p = s2c.lock().unwrap();
                        let avail = p.inbox.len();
                        if avail > 0 {
                            let n = 1 + ctx.choose(avail.min(40) as u64) as usize;
                            p.drain(n);
                            drop(p);
                            ctx.ev(6, n as u64, || format!("client reads {} bytes of output", n));
                        }
                    }
                    A_SPURIOUS => {
                        c2s.lock().unwrap().wake_reader();
                        s2c.lock().unwrap().wake_writer();
                        counters.bump("fault_spurious_wake");
                        ctx.ev(7, 0, || "spurious wake".into());
                    }
                    A_SENDER_GONE => {
                        // The listener ends (Server::run returns and drops its
                        // sender) and the application drops its sender too:
                        // the notification channel closes. The connection must
                        // keep answering queries.
                        if !sender_gone && !listener_failed && ctx.chance(1, 3) {
                            // The listener reports an error: Server::run returns
                            // it. The application keeps its sender, so the
                            // channel stays open; the connection must go on
                            // serving queries AND notifications.
                            listener_failed = true;
                            listener.fail();
                            counters.bump("fault_listener_error");
                            ctx.ev(10, 1, || "listener yields an error (Server::run returns Err); the sender lives on".into());
                        } else if !sender_gone {
                            sender_gone = true;
                            listener.close();
                            drop(std::mem::replace(&mut notify, NotifySender::new()));
                            counters.bump("fault_notify_channel_closed");
                            ctx.ev(10, 0, || "listener closed and notify sender dropped (channel closes)".into());
                        }
                    }
                    A_TOGGLE_READY => {
                        let r = {
                            let mut i = source.inner.lock().unwrap();
                            i.ready = !i.ready;
                            i.ready
                        };
                        counters.bump("fault_source_ready_toggled");
                        ctx.ev(11, r as u64, || format!("source ready = {}", r));
                    }
                    A_CLIENT_EOF => {
                        // The client shuts down its sending side right now:
                        // whatever it has sent so far is the whole byte stream.
                        // Complete queries in it must still be answered, also
                        // those the server has not read yet or is still busy with.
                        if !closed {
                            closed = true;
                            // a notification that the server has not acted on
                            // yet may legitimately lose the race against this EOF
                            if let Some(mark) = last_notify_mark {
                                let written = s2c.lock().unwrap().written.clone();
                                let (ps, _) = wire::parse_stream(&written);
                                if !ps.iter().any(|(off, p)| *off >= mark && matches!(p, WirePdu::SerialNotify { .. })) {
                                    last_notify_mark = None;
                                    counters.bump("probe_notify_overtaken_by_client_eof");
                                }
                            }
                            script.truncate(sent);
                            let unread = c2s.lock().unwrap().inbox.len();
                            let blocked = s2c.lock().unwrap().writer_waker.is_some();
                            c2s.lock().unwrap().close_writer();
                            counters.bump(if blocked { "fault_client_eof_while_server_blocked" } else if unread > 0 { "fault_client_eof_with_unread_queries" } else { "fault_client_eof_idle" });
                            ctx.ev(8, sent as u64, || format!("client half-closes after {} bytes ({} unread by the server, server blocked in write: {})", sent, unread, blocked));
                        }
                    }
                    A_IO_ERROR => {
                        // One read or write call of the server fails, with any
                        // error kind a transport may report; the socket would
                        // work again afterwards. The connection may end there -
                        // but whatever it has written or goes on to write must
                        // be a correct prefix of the answer (a record skipped
                        // because its write was "only interrupted" is not).
                        if !io_fault {
                            io_fault = true;
                            let kinds = [
                                std::io::ErrorKind::ConnectionReset, std::io::ErrorKind::BrokenPipe, std::io::ErrorKind::Interrupted,
                                std::io::ErrorKind::TimedOut, std::io::ErrorKind::Other, std::io::ErrorKind::ConnectionAborted,
                            ];
                            let kind = kinds[ctx.choose(kinds.len() as u64) as usize];
                            if ctx.chance(2, 3) {
                                let mut p = s2c.lock().unwrap();
                                p.write_err = Some(kind);
                                p.wake_writer();
                                counters.bump("fault_server_write_error");
                                ctx.ev(14, 0, || format!("the server's next write fails with {:?}", kind));
                            } else {
                                let mut p = c2s.lock().unwrap();
                                p.read_err = Some(kind);
                                p.wake_reader();
                                counters.bump("fault_server_read_error");
                                ctx.ev(14, 1, || format!("the server's next read fails with {:?}", kind));
                            }
                        }
                    }
                    A_BY_DELIVER => {
                        if let Some(by) = bystander.as_mut() {
                            if by.sent < by.script.len() {
                                let rem = by.script.len() - by.sent;
                                let n = match ctx.choose(4) {
                                    0 => rem,
                                    1 => 1,
                                    2 => 1 + ctx.choose(rem.min(7) as u64) as usize,
                                    _ => 1 + ctx.choose(rem.min(13) as u64) as usize,
                                };
                                by.c2s.lock().unwrap().inject(&by.script[by.sent..by.sent + n]);
                                ctx.ev(15, n as u64, || format!("second connection: deliver {} bytes: {}", n, hex(&by.script[by.sent..by.sent + n])));
                                by.sent += n;
                            }
                        }
                    }
                    A_WAIT => {
                        // simulated time passes (nothing else happens): a
                        // connection's answers must not depend on WHEN the
                        // bytes arrive either
                        let d = [1u64, 1_000, 29_000, 31_000, 61_000, 600_000, 3_600_000, 86_400_000][ctx.choose(8) as usize];
                        let (consumed, _) = { let p = c2s.lock().unwrap(); (p.n_read as usize, 0) };
                        let off = unit_offset(&units, consumed);
                        tokio::time::sleep(std::time::Duration::from_millis(d)).await;
                        counters.bump(if off > 0 { "fault_time_passes_inside_a_query" } else { "fault_time_passes" });
                        ctx.ev(13, d, || format!("{} ms pass (server is {} bytes into the current unit)", d, off));
                    }
                    _ => unreachable!(),
                }
            }
        }

        // ---- final phase: faults stop, deliver the rest, drain, settle ----
        if sent < script.len() {
            c2s.lock().unwrap().inject(&script[sent..]);
            ctx.ev(2, (script.len() - sent) as u64, || format!("deliver remaining {} bytes", script.len() - sent));
        }
        if let Some(by) = bystander.as_mut() {
            if by.active && by.sent < by.script.len() {
                by.c2s.lock().unwrap().inject(&by.script[by.sent..]);
                ctx.ev(15, (by.script.len() - by.sent) as u64, || format!("second connection: deliver remaining {} bytes", by.script.len() - by.sent));
                by.sent = by.script.len();
            }
        }
        let mut quiet = 0;
        let mut rounds = 0u64;
        loop {
            rounds += 1;
            if rounds > 200_000 {
                return Err(Violation::new("spin", "settle", "system never becomes quiescent after faults stopped"));
            }
            let before = ctx.progress_count();
            tokio::task::yield_now().await;
            let drained = {
                let mut p = s2c.lock().unwrap();
                let n = p.inbox.len();
                p.drain(n);
                n
            };
            if ctx.progress_count() == before && drained == 0 {
                quiet += 1;
            } else {
                quiet = 0;
                rounds = 0; // the cap is on rounds without any progress

            }
            if quiet >= 3 {
                if cfg.eof_at_end && !closed {
                    c2s.lock().unwrap().close_writer();
                    closed = true;
                    ctx.ev(8, 0, || "client closes its side (EOF)".into());
                    quiet = 0;
                    continue;
                }
                break;
            }
        }
        listener.close();
        tokio::task::yield_now().await;
        let _ = server_task;
        c2s.lock().unwrap().self_check();
        s2c.lock().unwrap().self_check();

        // ---- oracle ----------------------------------------------------------
        let panics = take_panics();
        if let Some(p) = panics.first() {
            if p.starts_with(crate::common::SPIN_PANIC) {
                return Err(Violation::new("spin", "server", format!("server task spins: {}", p)));
            }
            return Err(Violation::new("panic", "server", format!("server task panicked: {}", p)));
        }

        let calls: Vec<SourceCall> = source.inner.lock().unwrap().calls.clone();
        // Calls made before `calls_cut` belong to the second connection's
        // handshake (the main connection had no input yet).
        let conn_calls: Vec<&SourceCall> = calls[calls_cut..].iter().filter(|c| c.clone_id != 0).collect();
        let by_calls: Vec<&SourceCall> = calls[..calls_cut].iter().filter(|c| c.clone_id != 0).collect();
        // Each Full/Diff call with the timing values the source reported
        // between the previous and the next Full/Diff call of this connection.
        let build_answers = |conn_calls: &[&SourceCall]| -> Vec<Ans> {
            let mut answers: Vec<Ans> = Vec::new();
            let answer_idx: Vec<usize> = conn_calls
                .iter()
                .enumerate()
                .filter(|(_, c)| matches!(c.kind, CallKind::Full(_) | CallKind::Diff(..) | CallKind::Ready(false)))
                .map(|(i, _)| i)
                .collect();
            for (k, i) in answer_idx.iter().enumerate() {
                if matches!(conn_calls[*i].kind, CallKind::Ready(false)) {
                    answers.push(Ans::NotReady);
                    continue;
                }
                let lo = if k == 0 { 0 } else { answer_idx[k - 1] + 1 };
                let hi = answer_idx.get(k + 1).copied().unwrap_or(conn_calls.len());
                let mut timings: Vec<(u32, u32, u32)> = Vec::new();
                // prefer the calls made after this answer (current behaviour), then earlier ones
                for n in conn_calls[*i..hi].iter().chain(conn_calls[lo..*i].iter()) {
                    if let CallKind::Timing(t) = n.kind {
                        if !timings.contains(&t) {
                            timings.push(t);
                        }
                    }
                }
                answers.push(Ans::Data(conn_calls[*i].clone(), timings));
            }
            answers
        };
        let answers = build_answers(&conn_calls);
        let notified: Vec<StateKey> = calls
            .iter()
            .filter_map(|c| if let CallKind::Notify(s) = c.kind { Some(s) } else { None })
            .collect();

        let output = s2c.lock().unwrap().written.clone();
        let (pdus, used) = wire::parse_stream(&output);
        ctx.ev(9, pdus.len() as u64, || {
            format!("server output: {}", pdus.iter().map(|p| wire::describe(&p.1)).collect::<Vec<_>>().join(", "))
        });
        out.sim_ms = (tokio::time::Instant::now() - run_start).as_millis() as u64;
        let odd_version_notifies = std::cell::Cell::new(0u64);
        let reordered_responses = std::cell::Cell::new(0u64);
        let never_ready_seen = calls.iter().any(|c| matches!(c.kind, CallKind::Ready(false)));
        let judge = |ji: &JudgeIn, answers: &[Ans]| -> Result<(ModelOut, usize, u64), Violation> {
        let JudgeIn { script, output, pdus, used, version: conn_version, notified, never_ready_seen, partial_header_notifies, last_notify_mark, io_fault } = *ji;
        let m = model(script, answers)?;

        let ctx_key = |default: &str| -> String {
            if partial_header_notifies > 0 { "notify-with-partial-header".to_string() } else { default.to_string() }
        };

        // 3. the source is consulted exactly once per well-formed query
        // (once the stream is unframed by an erroneous unit, whatever follows
        // may or may not look like a query to the server: not specified)
        let n_data = answers.iter().filter(|a| matches!(a, Ans::Data(..))).count();
        if n_data > m.well_formed && !m.desync {
            return Err(Violation::new(
                "duplicated-query",
                ctx_key("source-calls"),
                format!("{} well-formed queries but the source was asked for data {} times", m.well_formed, n_data),
            ));
        }

        // 1. + 2. walk the output
        let mut idx = 0usize; // index into m.expected
        let mut within: Option<(usize, usize)> = None; // (expected idx, pdu idx) inside a Data response
        let mut notifies_seen = 0u64;
        let mut body: Vec<(usize, &WirePdu)> = Vec::new();
        for (off, p) in pdus {
            if let WirePdu::SerialNotify { session, serial, v: nv } = p {
                notifies_seen += 1;
                if *nv != conn_version && *nv != 0 {
                    odd_version_notifies.set(odd_version_notifies.get() + 1);
                }
                if within.is_some() {
                    return Err(Violation::new(
                        "notify-inside-response",
                        "",
                        format!("Serial Notify at output offset {} sits between a Cache Response and its End of Data", off),
                    ));
                }
                if !notified.contains(&(*session, *serial)) {
                    return Err(Violation::new(
                        "notify-wrong-state",
                        "",
                        format!("Serial Notify carries {:04x}/#{} which the source never reported via notify()", session, serial),
                    ));
                }
                continue;
            }
            let exp = match m.expected.get(idx) {
                Some(e) => e,
                None => {
                    return Err(Violation::new(
                        "extra-response",
                        ctx_key(""),
                        format!("unexpected PDU {} at output offset {} after all {} expected responses", wire::describe(p), off, m.expected.len()),
                    ));
                }
            };
            match exp {
                Expected::Data(want, timings) => {
                    // A response is Cache Response, the payload PDUs of the
                    // source's answer, End of Data. Payload PDUs that concern
                    // different records may come in any order (the statement
                    // fixes the response, not the listing order of independent
                    // records); PDUs about one record keep the source's order.
                    let j = within.map(|w| w.1).unwrap_or(0);
                    let bad = |what: String| Violation::new("corrupted-response", ctx_key(""), what);
                    if j == 0 {
                        let enc = want[0].encode();
                        if &want[0] != p {
                            return Err(bad(format!("response #{} PDU #0: got {}, expected {}", idx + 1, wire::describe(p), wire::describe(&want[0]))));
                        }
                        if output[*off..(*off + enc.len()).min(output.len())] != enc[..] {
                            return Err(Violation::new("corrupted-response", ctx_key("bytes"), format!(
                                "response #{} PDU #0 {}: bytes on the wire are {}, RFC layout is {}",
                                idx + 1, wire::describe(p), hex(&output[*off..(*off + enc.len()).min(output.len())]), hex(&enc)
                            )));
                        }
                        body.clear();
                        within = Some((idx, 1));
                    } else if let WirePdu::EndOfData { v: v2, session: s2, serial: n2, timing: t2 } = p {
                        let last = want.last().unwrap();
                        let same = match (last, t2) {
                            // End of Data: any timing the source reported around this
                            // query (a timing that the source never reported around it -
                            // e.g. a value cached from an earlier one - is not a
                            // function of the source)
                            (WirePdu::EndOfData { v: v1, session: s1, serial: n1, timing: Some(_) }, Some(t2)) => {
                                v1 == v2 && s1 == s2 && n1 == n2 && timings.contains(t2)
                            }
                            _ => last == p,
                        };
                        if !same {
                            return Err(bad(format!(
                                "response #{} PDU #{}: got {}, expected {} (timing candidates {:?})",
                                idx + 1, j, wire::describe(p), wire::describe(last), timings
                            )));
                        }
                        let enc = p.encode();
                        if output[*off..(*off + enc.len()).min(output.len())] != enc[..] {
                            return Err(Violation::new("corrupted-response", ctx_key("bytes"), format!(
                                "response #{} End of Data: bytes on the wire are {}, RFC layout is {}",
                                idx + 1, hex(&output[*off..(*off + enc.len()).min(output.len())]), hex(&enc)
                            )));
                        }
                        match same_payload(&want[1..want.len() - 1], &body, output) {
                            Ok(reordered) => {
                                if reordered { reordered_responses.set(reordered_responses.get() + 1); }
                            }
                            Err((class_key, what)) => {
                                return Err(Violation::new("corrupted-response", ctx_key(class_key), format!("response #{}: {}", idx + 1, what)));
                            }
                        }
                        body.clear();
                        within = None;
                        idx += 1;
                    } else if p.is_payload() {
                        if body.len() + 2 >= want.len() {
                            return Err(bad(format!(
                                "response #{} PDU #{}: got {}, expected {} (the source's answer has {} payload PDUs for this version)",
                                idx + 1, j, wire::describe(p), wire::describe(want.last().unwrap()), want.len() - 2
                            )));
                        }
                        body.push((*off, p));
                        within = Some((idx, j + 1));
                    } else {
                        return Err(bad(format!("response #{} PDU #{}: got {} inside a data response", idx + 1, j, wire::describe(p))));
                    }
                }
                Expected::CacheReset { v } => {
                    if *p != (WirePdu::CacheReset { v: *v }) || output[*off..*off + 8] != (WirePdu::CacheReset { v: *v }).encode()[..] {
                        return Err(Violation::new(
                            "corrupted-response",
                            ctx_key(""),
                            format!("response #{}: got {}, expected CacheReset(v{})", idx + 1, wire::describe(p), v),
                        ));
                    }
                    idx += 1;
                }
                Expected::Error { unsupported_version } => {
                    match p {
                        WirePdu::Error { v, code, .. } => {
                            // (while the source is not ready a server may as well answer
                            // "no data available": the statement only asks for an Error PDU)
                            if *unsupported_version && (*code != 4 || *v > 2) && !answers.iter().any(|a| matches!(a, Ans::NotReady)) && !never_ready_seen {
                                return Err(Violation::new(
                                    "wrong-error",
                                    "unsupported-version",
                                    format!("unsupported version must be answered with code 4 in a supported version, got code {} version {}", code, v),
                                ));
                            }
                        }
                        other => {
                            return Err(Violation::new(
                                "missing-error",
                                ctx_key(""),
                                format!("malformed/unsupported query must be answered with an Error PDU, got {}", wire::describe(other)),
                            ));
                        }
                    }
                    idx += 1;
                    if m.desync && idx == m.expected.len() {
                        // nothing is specified after this error response
                        break;
                    }
                }
            }
        }
        let error_terminated = m.desync && idx == m.expected.len();
        if !error_terminated && !io_fault {
            if used != output.len() {
                return Err(Violation::new(
                    "partial-response",
                    ctx_key(""),
                    format!("output ends with {} bytes that are not a whole PDU: {}", output.len() - used, hex(&output[used..])),
                ));
            }
            if within.is_some() {
                return Err(Violation::new(
                    "partial-response",
                    ctx_key(""),
                    format!("response #{} never reached its End of Data", idx + 1),
                ));
            }
        }
        // 4. bounded progress: all bytes delivered, faults stopped, quiescent
        if (idx < m.expected.len() || answers.len() < m.well_formed) && !io_fault {
            let missing_kind = match m.expected.get(idx) {
                Some(Expected::Error { .. }) => "missing-error",
                _ => "lost-query",
            };
            return Err(Violation::new(
                missing_kind,
                ctx_key(""),
                format!(
                    "{} complete queries were delivered ({} well-formed) but only {} responses were sent and the source was asked {} times; the system is quiescent",
                    m.expected.len().max(m.well_formed), m.well_formed, idx, answers.len()
                ),
            ));
        }
        // Update notifications appear as Serial Notify PDUs: when notify() was
        // called on a live, framed connection, a Serial Notify must have been
        // written after the last such call by the time the system is quiescent
        // (bursts may be coalesced; a call overtaken by the client's EOF before
        // the server ran again was forgiven when the EOF was issued).
        if let Some(mark) = last_notify_mark {
            let sent_after = pdus.iter().any(|(off, p)| *off >= mark && matches!(p, WirePdu::SerialNotify { .. }));
            if !sent_after && !m.ends && !m.desync && !m.stuck_in_query && !io_fault {
                return Err(Violation::new(
                    "lost-notify",
                    "",
                    format!(
                        "notify() was called on a live connection when {} output bytes had been written, but no Serial Notify was sent afterwards ({} were sent before)",
                        mark, notifies_seen
                    ),
                ));
            }
        }
        Ok((m, idx, notifies_seen))
        };

        // The source may have said "not ready" for a query; which query a
        // logged ready() == false belongs to is known by position only if the
        // server asks exactly once per well-formed query. Try the positional
        // pairing first, then the pairings with some of those answers left out.
        let decide = |ji: &JudgeIn, answers: &[Ans]| -> Result<(ModelOut, usize, u64), Violation> {
            let n_not_ready = answers.iter().filter(|a| matches!(a, Ans::NotReady)).count();
            let mut verdict = judge(ji, answers);
            if verdict.is_err() && n_not_ready > 0 {
                let masks: Vec<u32> = if n_not_ready <= 4 { (1..(1u32 << n_not_ready)).collect() } else { (1..=n_not_ready as u32).map(|k| (1u32 << k) - 1).collect() };
                for mask in masks {
                    let mut k = 0;
                    let variant: Vec<Ans> = answers
                        .iter()
                        .filter(|a| {
                            if matches!(a, Ans::NotReady) {
                                let drop_it = mask & (1 << k.min(31)) != 0;
                                k += 1;
                                !drop_it
                            } else {
                                true
                            }
                        })
                        .cloned()
                        .collect();
                    if let Ok(v) = judge(ji, &variant) {
                        verdict = Ok(v);
                        break;
                    }
                }
            }
            verdict
        };
        let main_in = JudgeIn {
            script: &script, output: &output, pdus: &pdus, used, version: cfg.version, notified: &notified,
            never_ready_seen, partial_header_notifies, last_notify_mark,
            // the relaxation applies only if the armed error was really
            // handed to the server (it has been taken from the pipe)
            io_fault: io_fault && s2c.lock().unwrap().write_err.is_none() && c2s.lock().unwrap().read_err.is_none(),
        };
        if io_fault && !main_in.io_fault {
            counters.bump("probe_armed_io_error_never_reached_the_server");
        }
        // Two connections that talked at the same time share the log of source
        // calls. Which call was made for which connection is not observable
        // without relying on how the server hands its source to connections, so
        // the run holds if SOME attribution of the Full/Diff calls explains both
        // outputs (the source never changes in these runs, so timing and
        // readiness calls carry no information and go to both). The split by
        // source clone is tried first; if it fails all others are tried.
        if let Some(by) = bystander.as_ref().filter(|b| b.active) {
            let by_out = by.s2c.lock().unwrap().written.clone();
            let (by_pdus, by_used) = wire::parse_stream(&by_out);
            ctx.ev(9, by_pdus.len() as u64, || {
                format!("second connection output: {}", by_pdus.iter().map(|p| wire::describe(&p.1)).collect::<Vec<_>>().join(", "))
            });
            let by_in = JudgeIn {
                script: &by.script, output: &by_out, pdus: &by_pdus, used: by_used, version: by.version, notified: &notified,
                never_ready_seen, partial_header_notifies: 0, last_notify_mark: by.last_notify_mark, io_fault: false,
            };
            let tag = |v: Violation, which: &str| Violation::new(&v.class, "two-active-connections", format!("{} of two connections talking at the same time (main v{}, second v{}): {}", which, cfg.version, by.version, v.detail));
            let data_pos: Vec<usize> = conn_calls.iter().enumerate().filter(|(_, c)| matches!(c.kind, CallKind::Full(_) | CallKind::Diff(..))).map(|(i, _)| i).collect();
            let n = data_pos.len();
            if n >= 128 {
                counters.bump("probe_two_active_connections_unattributable");
                return Ok(());
            }
            let try_mask = |mask: u128| -> Result<((ModelOut, usize, u64), (usize, u64)), Violation> {
                let pick = |want: u128| -> Vec<&SourceCall> {
                    conn_calls.iter().enumerate().filter(|(i, _)| match data_pos.iter().position(|p| p == i) {
                        Some(k) => (mask >> k) & 1 == want,
                        None => true,
                    }).map(|(_, c)| *c).collect()
                };
                let a = decide(&main_in, &build_answers(&pick(1))).map_err(|v| tag(v, "first"))?;
                let (_, b_idx, b_not) = decide(&by_in, &build_answers(&pick(0))).map_err(|v| tag(v, "second"))?;
                Ok((a, (b_idx, b_not)))
            };
            let mut ids: Vec<u64> = Vec::new();
            for p in &data_pos {
                let id = conn_calls[*p].clone_id as u64;
                if !ids.contains(&id) { ids.push(id); }
            }
            let mut candidates: Vec<u128> = ids.iter().map(|id| {
                data_pos.iter().enumerate().fold(0u128, |m, (k, p)| if conn_calls[*p].clone_id as u64 == *id { m | (1 << k) } else { m })
            }).collect();
            let all = if n >= 128 { u128::MAX } else { (1u128 << n) - 1 };
            let complements: Vec<u128> = candidates.iter().map(|m| !m & all).collect();
            for c in complements {
                if !candidates.contains(&c) { candidates.push(c); }
            }
            if n == 0 && candidates.is_empty() { candidates.push(0); }
            let mut found = None;
            let mut first_err = None;
            for mask in candidates.iter().copied() {
                match try_mask(mask) {
                    Ok(r) => { found = Some(r); break; }
                    Err(v) => { if first_err.is_none() { first_err = Some(v); } }
                }
            }
            if found.is_none() && n <= 12 {
                counters.bump("probe_two_connections_split_by_source_clone_failed");
                for mask in 0..(1u128 << n) {
                    if candidates.contains(&mask) { continue; }
                    match try_mask(mask) {
                        Ok(r) => { found = Some(r); break; }
                        Err(v) => { if first_err.is_none() { first_err = Some(v); } }
                    }
                }
            }
            match found {
                Some(((m, idx, notifies_seen), (by_idx, by_notifies))) => {
                    counters.bump("probe_two_active_connections_judged");
                    counters.add("probe_second_connection_responses_checked", by_idx as u64);
                    counters.add("probe_second_connection_notifies_seen", by_notifies);
                    counters.add("probe_serial_notifies_seen", notifies_seen);
                    counters.add("responses_checked", (idx + by_idx) as u64);
                    out.nontrivial = idx + by_idx > 0 || m.ends;
                    return Ok(());
                }
                None if n > 12 => {
                    // too many calls to try every attribution: no verdict
                    counters.bump("probe_two_active_connections_unattributable");
                    return Ok(());
                }
                None => {
                    let v = first_err.expect("no attribution tried");
                    return Err(Violation::new(&v.class, &v.key, format!(
                        "no attribution of the {} Full/Diff calls to the two connections explains both outputs ({} tried); under the first one tried: {}",
                        n, if n <= 12 { 1u64 << n } else { candidates.len() as u64 }, v.detail
                    )));
                }
            }
        }
        let (m, idx, notifies_seen) = decide(&main_in, &answers)?;
        // The second connection: its own handshake answered, every later
        // notification passed on, nothing else - whatever the main one did.
        if let Some(by) = &bystander {
            let by_out = by.s2c.lock().unwrap().written.clone();
            let (by_pdus, by_used) = wire::parse_stream(&by_out);
            ctx.ev(9, by_pdus.len() as u64, || {
                format!("second connection output: {}", by_pdus.iter().map(|p| wire::describe(&p.1)).collect::<Vec<_>>().join(", "))
            });
            let tag = |v: Violation| Violation::new(&v.class, "second-connection", format!("second connection (v{}, {}): {}", by.version, if by.stalled { "never read by its client" } else { "idle after its first query" }, v.detail));
            if by.stalled {
                // its client never reads: only whole Serial Notify PDUs (or a prefix of one) may have been written
                for (off, p) in &by_pdus {
                    if !matches!(p, WirePdu::SerialNotify { .. }) {
                        return Err(tag(Violation::new("extra-response", "", format!("unexpected PDU {} at output offset {} on a connection that sent nothing", wire::describe(p), off))));
                    }
                }
            } else {
                let by_answers = build_answers(&by_calls);
                let by_in = JudgeIn {
                    script: &by.script, output: &by_out, pdus: &by_pdus, used: by_used, version: by.version, notified: &notified,
                    never_ready_seen, partial_header_notifies: 0, last_notify_mark: by.last_notify_mark, io_fault: false,
                };
                let (_, by_idx, by_notifies) = decide(&by_in, &by_answers).map_err(tag)?;
                counters.add("probe_second_connection_responses_checked", by_idx as u64);
                counters.add("probe_second_connection_notifies_seen", by_notifies);
            }
        }
        counters.add("probe_notify_in_unexpected_version", odd_version_notifies.get());
        counters.add("probe_response_lists_independent_records_in_another_order", reordered_responses.get());
        counters.add("probe_serial_notifies_seen", notifies_seen);
        counters.add("responses_checked", idx as u64);
        for e in &m.expected {
            match e {
                Expected::Data(..) => counters.bump("probe_data_response"),
                Expected::CacheReset { .. } => counters.bump("probe_cache_reset"),
                Expected::Error { unsupported_version: true } => counters.bump("probe_error_unsupported_version"),
                Expected::Error { .. } => counters.bump("probe_error_response"),
            }
        }
        if m.ends {
            counters.bump("probe_client_error_pdu");
        }
        out.nontrivial = idx > 0 || m.ends;
        Ok(())
    }
}

/// Offset of stream position `consumed` within the unit that contains it
/// (0 when it sits exactly on a unit boundary).
fn unit_offset(units: &[Unit], consumed: usize) -> usize {
    let mut pos = 0;
    for u in units {
        let n = u.bytes().len();
        if consumed < pos + n {
            return consumed - pos;
        }
        pos += n;
    }
    0
}

impl Scenario for C08 {
    fn id(&self) -> &'static str { "C08" }
    fn name(&self) -> &'static str { "rtr-server" }
    fn level(&self) -> &'static str { "exploration" }

    fn sweep_len(&self, _tier: Tier) -> u64 {
        // version(3) x cut(13) x query kind(2) x extra yields(3) x notify slot(3)
        // x (no time passes / 45 s pass after the cut)
        3 * 13 * 2 * 3 * 3 * 2
    }

    fn random_runs(&self, tier: Tier) -> u64 {
        match tier { Tier::Quick => 2_000_000, Tier::Thorough => 100_000_000 }
    }

    fn run(&self, kind: RunKind, tier: Tier, tape: Tape, log: bool) -> (RunOut, Tape) {
        let _ = take_panics();
        let ctx = Arc::new(SimCtx::new(tape, log, 2_000_000));
        let mut out = RunOut::default();
        let mut counters = Counters::default();
        let rt = paused_runtime();
        let res = rt.block_on(self.run_async(kind, tier, ctx.clone(), &mut counters, &mut out));
        drop(rt);
        out.violation = res.err();
        counters.merge(&ctx.counters.lock().unwrap());
        out.counters = counters;
        out.evaluations = 1;
        let mut lg = ctx.log.lock().unwrap();
        out.sig = lg.sig;
        out.log = std::mem::take(&mut lg.lines);
        drop(lg);
        let tape = ctx.tape.lock().unwrap().clone();
        (out, tape)
    }

    fn rule(&self) -> &'static str {
        "One run = one real server connection (Server::run -> Connection) fed a scripted client byte \
         string (1-6 well-formed Serial/Reset queries of one version, optionally one final erroneous \
         unit, optionally EOF) under a tape-chosen schedule of: delivering the next 1..n bytes, \
         notify() (sometimes through a cloned sender), source update+notify, yields (server task gets polled), \
         simulated time passing (1 ms .. 1 day), spurious wake-ups, the listener failing or ending, and \
         reading 1..n bytes of output from a small output buffer. One random run in four has a second \
         connection on the same server (own Reset Query answered first, then silent; or stalled and \
         never read; or - static source only - talking at the same time with a script of its own, \
         both outputs to be explained by one attribution of the logged source calls), one script in \
         sixteen pipelines 10-40 queries, one in three an idle application-side NotifyReceiver, one in six a notify() \
         before the connection task was first polled. The sweep walks version x cut \
         position 0..12 x query kind x extra yields x notify slot x (no time / 45 s pass after the cut) deterministically. After the schedule \
         all remaining bytes are delivered, output is drained and the run settles; then the output is \
         compared with a sequential reference model fed with the logged source answers. A run is \
         non-trivial if at least one response was checked. distinct = distinct hash of the event \
         sequence (action kinds, byte counts, source calls) of the run, counted in a bitmap (lower bound)."
    }

    fn components(&self) -> (Vec<&'static str>, Vec<&'static str>) {
        (
            vec![
                "rpki::rtr::server::Server::run",
                "rpki::rtr::server::Connection::{run,recv,check_version,check_length,serial,reset,error,notify}",
                "rpki::rtr::server::{NotifySender,NotifyReceiver} (tokio broadcast channel)",
                "rpki::rtr::pdu writers and Header/SerialQueryPayload readers",
                "tokio current-thread scheduler, task spawning, futures_util::future::select",
            ],
            vec![
                "SimListener, SimSocket/pipes (simulator-controlled delivery, short reads/writes, back-pressure, spurious wake-ups, EOF)",
                "VersionedSource (PayloadSource stub = ground truth, logs every call)",
                "scripted byte-level client (owned by the simulator)",
                "independent RTR codec + sequential reference model of a connection (oracle)",
            ],
        )
    }

    fn assumptions(&self) -> Vec<&'static str> {
        vec![
            "a Reset Query (version >= 1) whose header field 'zero' is not zero is a well-formed query and gets its data response: RFC 8210 section 5 says such fields MUST be ignored on receipt (for version 0, RFC 6810 only says MAY, so version 0 queries keep the field at zero)",
            "while the source reports ready() == false a well-formed query gets exactly one Error PDU (the statement does not list this case; this is what the code documents) - toggled in the dynamic class",
            "the second connection's handshake is completed before the main client sends anything, so that source calls can be attributed to a connection without relying on how the server clones its source; when both connections talk at the same time (static, ready source only) the run holds if some attribution of the Full/Diff calls explains both outputs",
            "the server obtains the data of every response from a full()/diff() call made for that query, and the expected response is what that call returned (PayloadSource is the only way to the data, and the source may change without a notification): a server answering from a cache of its own without asking the source would be reported (wrong-source-call) even if its cache were right",
            "notify() on a live, framed connection must be followed by a Serial Notify by the time the system is quiescent (bursts may be coalesced: one PDU written after the last call is enough; a call that the client's EOF overtakes before the server runs again is forgiven; a connection parked inside an incomplete query is exempt)",
            "erroneous units that are exactly one 8-byte header long (unknown type, other version, too-new version) may appear anywhere and the queries after them must still be answered; an erroneous unit longer than its header (wrong length, Serial Query with a bad version) leaves the stream unframed, so at most one of those per script, placed last, and nothing is required after its Error PDU",
            "Error PDUs are compared by type and framing only, plus code 4 in a supported version for the unsupported-version case",
            "ASPA withdraw PDUs are compared by customer only",
            "tokio's current-thread scheduler is deterministic given deterministic wake-ups (checked by `selftest determinism`)",
        ]
    }

    fn vacuous(&self, totals: &Counters) -> Option<String> {
        if totals.get("responses_checked") == 0 {
            return Some("no response was ever checked".into());
        }
        None
    }
}
