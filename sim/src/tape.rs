//! The tape: the single source of nondeterminism of a simulated run.
//!
//! Every choice a run makes (workload, schedule, delays, faults) is one call
//! to `Tape::choose`. In generate mode the values come from a PRNG seeded
//! from (VERIF_SEED, run index) and are recorded; in replay mode they are
//! read back from a recorded list. Convention: 0 is always the simplest
//! choice, so that truncating or zeroing a tape simplifies the run.

/// SplitMix64, used for seeding and for mixing seeds.
#[derive(Clone, Debug)]
pub struct SplitMix64(pub u64);

impl SplitMix64 {
    pub fn next(&mut self) -> u64 {
        self.0 = self.0.wrapping_add(0x9E37_79B9_7F4A_7C15);
        let mut z = self.0;
        z = (z ^ (z >> 30)).wrapping_mul(0xBF58_476D_1CE4_E5B9);
        z = (z ^ (z >> 27)).wrapping_mul(0x94D0_49BB_1331_11EB);
        z ^ (z >> 31)
    }
}

/// Mixes several integers into one seed.
pub fn mix(parts: &[u64]) -> u64 {
    let mut s = SplitMix64(0x243F_6A88_85A3_08D3);
    let mut acc = 0u64;
    for p in parts {
        s.0 ^= *p;
        acc = acc.rotate_left(17) ^ s.next();
    }
    acc
}

/// xoshiro256**.
#[derive(Clone, Debug)]
struct Xoshiro([u64; 4]);

impl Xoshiro {
    fn new(seed: u64) -> Self {
        let mut sm = SplitMix64(seed);
        Xoshiro([sm.next(), sm.next(), sm.next(), sm.next()])
    }
    fn next(&mut self) -> u64 {
        let s = &mut self.0;
        let result = s[1].wrapping_mul(5).rotate_left(7).wrapping_mul(9);
        let t = s[1] << 17;
        s[2] ^= s[0];
        s[3] ^= s[1];
        s[1] ^= s[2];
        s[0] ^= s[3];
        s[2] ^= t;
        s[3] = s[3].rotate_left(45);
        result
    }
}

#[derive(Clone, Debug)]
enum Mode {
    Generate(Xoshiro),
    Replay { values: Vec<u64>, pos: usize },
}

#[derive(Clone, Debug)]
pub struct Tape {
    mode: Mode,
    /// Every value handed out so far.
    pub rec: Vec<u64>,
    /// Number of choices made (== rec.len()).
    pub draws: u64,
}

impl Tape {
    pub fn generate(seed: u64) -> Self {
        Tape { mode: Mode::Generate(Xoshiro::new(seed)), rec: Vec::new(), draws: 0 }
    }

    pub fn replay(values: Vec<u64>) -> Self {
        Tape { mode: Mode::Replay { values, pos: 0 }, rec: Vec::new(), draws: 0 }
    }

    /// The one and only source of randomness: a value in `0..n`.
    pub fn choose(&mut self, n: u64) -> u64 {
        let v = if n <= 1 {
            // Still consumes a slot in replay mode so that tapes stay aligned
            // irrespective of n; but no PRNG draw is needed.
            match self.mode {
                Mode::Generate(_) => 0,
                Mode::Replay { ref values, ref mut pos } => {
                    let _ = values.get(*pos);
                    *pos += 1;
                    0
                }
            }
        } else {
            match self.mode {
                Mode::Generate(ref mut rng) => rng.next() % n,
                Mode::Replay { ref values, ref mut pos } => {
                    let v = values.get(*pos).copied().unwrap_or(0) % n;
                    *pos += 1;
                    v
                }
            }
        };
        self.rec.push(v);
        self.draws += 1;
        v
    }

    /// True with probability num/den; 0 on the tape means false.
    pub fn chance(&mut self, num: u64, den: u64) -> bool {
        debug_assert!(num <= den);
        self.choose(den) >= den - num
    }

    /// Inclusive range; `lo` is the simplest value.
    pub fn range(&mut self, lo: u64, hi: u64) -> u64 {
        debug_assert!(lo <= hi);
        lo + self.choose(hi - lo + 1)
    }

    /// Index into a weight table; index 0 is the simplest choice.
    pub fn weighted(&mut self, weights: &[u64]) -> usize {
        let total: u64 = weights.iter().sum();
        let mut v = self.choose(total);
        for (i, w) in weights.iter().enumerate() {
            if v < *w {
                return i;
            }
            v -= *w;
        }
        weights.len() - 1
    }

    /// A full 64-bit value (two draws are not needed; n = 2^64 is not
    /// representable so this draws from 2^63 and one extra bit).
    pub fn bits(&mut self, nbits: u32) -> u64 {
        if nbits == 0 {
            return 0;
        }
        if nbits >= 64 {
            let hi = self.choose(1 << 32);
            let lo = self.choose(1 << 32);
            return (hi << 32) | lo;
        }
        self.choose(1u64 << nbits)
    }

    pub fn pick<'a, T>(&mut self, items: &'a [T]) -> &'a T {
        &items[self.choose(items.len() as u64) as usize]
    }

    pub fn is_replay(&self) -> bool {
        matches!(self.mode, Mode::Replay { .. })
    }
}

//------------ Shrinking -------------------------------------------------------

/// Shrinks a failing tape. `fails` re-runs the scenario on a candidate tape
/// and returns `Some(consumed_prefix)` if the *same class* of violation still
/// occurs (the recorded values actually consumed), `None` otherwise.
pub fn shrink<F>(initial: Vec<u64>, mut fails: F, budget: std::time::Duration) -> Vec<u64>
where
    F: FnMut(&[u64]) -> Option<Vec<u64>>,
{
    let start = std::time::Instant::now();
    let mut best = initial;
    // Normalise: the consumed prefix of the original.
    if let Some(used) = fails(&best) {
        best = used;
    } else {
        return best; // not reproducible in-process: report as is
    }
    let mut improved = true;
    while improved && start.elapsed() < budget {
        improved = false;
        // 1. truncate the tail (binary search on the length)
        let mut lo = 0usize;
        let mut hi = best.len();
        while lo < hi && start.elapsed() < budget {
            let mid = (lo + hi) / 2;
            if let Some(used) = fails(&best[..mid]) {
                if used.len() < best.len() || strip(&used) < strip(&best) {
                    best = trim(used);
                    improved = true;
                }
                hi = mid.min(best.len());
            } else {
                lo = mid + 1;
            }
        }
        best = trim(best);
        // 2. delete blocks
        let mut size = (best.len() / 2).max(1);
        while size >= 1 && start.elapsed() < budget {
            let mut i = 0;
            while i + size <= best.len() && start.elapsed() < budget {
                let mut cand = best.clone();
                cand.drain(i..i + size);
                if let Some(used) = fails(&cand) {
                    let used = trim(used);
                    if less(&used, &best) {
                        best = used;
                        improved = true;
                        continue;
                    }
                }
                i += size;
            }
            if size == 1 {
                break;
            }
            size /= 2;
        }
        // 3. zero blocks, then single entries
        let mut size = (best.len() / 2).max(1);
        while size >= 1 && start.elapsed() < budget {
            let mut i = 0;
            while i < best.len() && start.elapsed() < budget {
                let end = (i + size).min(best.len());
                if best[i..end].iter().any(|v| *v != 0) {
                    let mut cand = best.clone();
                    for v in &mut cand[i..end] {
                        *v = 0;
                    }
                    if let Some(used) = fails(&cand) {
                        let used = trim(used);
                        if less(&used, &best) {
                            best = used;
                            improved = true;
                        }
                    }
                }
                i += size;
            }
            if size == 1 {
                break;
            }
            size /= 2;
        }
        // 4. halve / decrement values
        let mut i = 0;
        while i < best.len() && start.elapsed() < budget {
            while best[i] > 0 && start.elapsed() < budget {
                let mut cand = best.clone();
                cand[i] = if best[i] > 1 { best[i] / 2 } else { 0 };
                let mut ok = false;
                if let Some(used) = fails(&cand) {
                    let used = trim(used);
                    if less(&used, &best) {
                        best = used;
                        improved = true;
                        ok = true;
                    }
                }
                if !ok {
                    // try decrement by one
                    let mut cand = best.clone();
                    if i < cand.len() && cand[i] > 0 {
                        cand[i] -= 1;
                        if let Some(used) = fails(&cand) {
                            let used = trim(used);
                            if less(&used, &best) {
                                best = used;
                                improved = true;
                                ok = true;
                            }
                        }
                    }
                }
                if !ok || i >= best.len() {
                    break;
                }
            }
            i += 1;
        }
    }
    best
}

/// Removes trailing zeros (an exhausted tape yields zeros anyway).
fn trim(mut v: Vec<u64>) -> Vec<u64> {
    while v.last() == Some(&0) {
        v.pop();
    }
    v
}

fn strip(v: &[u64]) -> Vec<u64> {
    trim(v.to_vec())
}

/// Shortlex order on trimmed tapes, then by sum.
fn less(a: &[u64], b: &[u64]) -> bool {
    let a = strip(a);
    let b = strip(b);
    if a.len() != b.len() {
        return a.len() < b.len();
    }
    let nz_a = a.iter().filter(|v| **v != 0).count();
    let nz_b = b.iter().filter(|v| **v != 0).count();
    if nz_a != nz_b {
        return nz_a < nz_b;
    }
    a < b
}
