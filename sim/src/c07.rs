//! C07 — `rtr-wire`: RTR PDUs survive the wire unchanged; broken streams end
//! in errors, not hangs.
//!
//! Real code: every `write`, `read`, `try_read`, `read_payload`,
//! `Payload::read`, `Payload::to_payload`, `EndOfData::read_payload`,
//! `Error::skip_payload`, `Header::read`, `SerialQueryPayload::read` in
//! `rpki::rtr::pdu`. Stubs: `SimSocket`, the independent codec, the hand
//! scheduler for the writer and reader tasks.

use std::io;
use std::net::{Ipv4Addr, Ipv6Addr};
use std::sync::Arc;
use bytes::Bytes;
use rpki::resources::addr::{MaxLenPrefix, Prefix};
use rpki::resources::asn::Asn;
use rpki::rtr::payload::{self, Action};
use rpki::rtr::pdu;
use rpki::rtr::state::{Serial, State};
use crate::common::{fnv, hex, Counters, RunOut, SimCtx, Violation};
use crate::exec::{guarded, Task};
use crate::net::{new_pipe, socket_pair, SimSocket};
use crate::rtrcodec::{self as wire, WirePdu};
use crate::scenario::{RunKind, Scenario, Tier};
use crate::tape::Tape;

pub struct C07;

//------------ Generation ------------------------------------------------------

fn gen_version(t: &mut Tape) -> u8 {
    t.choose(3) as u8
}

fn gen_u32(t: &mut Tape) -> u32 {
    match t.choose(6) {
        0 => 0,
        1 => u32::MAX,
        2 => t.choose(300) as u32,
        3 => u32::MAX - t.choose(300) as u32,
        4 => 0x8000_0000u32.wrapping_add(t.choose(5) as u32).wrapping_sub(2),
        _ => t.bits(32) as u32,
    }
}

fn gen_u16(t: &mut Tape) -> u16 {
    match t.choose(4) {
        0 => 0,
        1 => u16::MAX,
        2 => t.choose(300) as u16,
        _ => t.bits(16) as u16,
    }
}

/// A prefix length at the boundaries of the family.
fn gen_len(t: &mut Tape, max: u8) -> u8 {
    match t.choose(6) {
        0 => 0,
        1 => 1,
        2 => max - 1,
        3 => max,
        _ => t.choose(max as u64 + 1) as u8,
    }
}

/// (plen, maxlen) with plen <= maxlen <= max; covers =, <, max.
fn gen_lens(t: &mut Tape, max: u8) -> (u8, u8) {
    let plen = gen_len(t, max);
    let maxlen = match t.choose(4) {
        0 => plen,
        1 => max,
        2 => (plen + 1).min(max),
        _ => plen + t.choose((max - plen) as u64 + 1) as u8,
    };
    (plen, maxlen)
}

fn mask128(addr: u128, plen: u8, width: u8) -> u128 {
    if plen == 0 {
        0
    } else {
        let shift = (width - plen) as u32;
        if shift >= 128 { 0 } else { (addr >> shift) << shift }
    }
}

pub fn gen_payload_pdu(t: &mut Tape, v: u8) -> WirePdu {
    let flags = t.choose(2) as u8;
    match t.choose(4) {
        0 => {
            let (plen, maxlen) = gen_lens(t, 32);
            let addr = mask128(t.bits(32) as u128, plen, 32) as u32;
            WirePdu::Ipv4 { v, flags, plen, maxlen, addr, asn: gen_u32(t) }
        }
        1 => {
            let (plen, maxlen) = gen_lens(t, 128);
            let addr = mask128(((t.bits(64) as u128) << 64) | t.bits(64) as u128, plen, 128);
            WirePdu::Ipv6 { v, flags, plen, maxlen, addr, asn: gen_u32(t) }
        }
        2 => {
            let n = match t.choose(14) {
                0 => 0,
                1 => 70_000,
                2 => 1,
                // sizes around the chunk sizes readers like to use
                3 => *t.pick(&[255usize, 256, 257, 1023, 1024, 1025, 2048, 4096, 65535, 65536]),
                _ => t.choose(201) as usize,
            };
            let mut ski = [0u8; 20];
            for b in ski.iter_mut() {
                *b = t.choose(256) as u8;
            }
            let fill = t.choose(256) as u8;
            let spki: Vec<u8> = (0..n).map(|i| fill.wrapping_add(i as u8)).collect();
            WirePdu::RouterKey { v, flags, ski, asn: gen_u32(t), spki }
        }
        _ => {
            let n = match t.choose(18) {
                0 => 0,
                1 => pdu::ProviderAsns::MAX_COUNT,
                2 => 1,
                3 => *t.pick(&[63usize, 64, 255, 256, 257, 512, 1024, 16379]),
                _ => t.choose(51) as usize,
            };
            let base = gen_u32(t);
            let providers: Vec<u32> = (0..n).map(|i| base.wrapping_add(i as u32 * 7)).collect();
            WirePdu::Aspa { v, flags, customer: gen_u32(t), providers }
        }
    }
}

fn gen_pdu(t: &mut Tape) -> WirePdu {
    let v = gen_version(t);
    match t.choose(10) {
        0 => WirePdu::SerialNotify { v, session: gen_u16(t), serial: gen_u32(t) },
        1 => WirePdu::SerialQuery { v, session: gen_u16(t), serial: gen_u32(t) },
        2 => WirePdu::ResetQuery { v },
        3 => WirePdu::CacheResponse { v, session: gen_u16(t) },
        4 => {
            let timing = if v == 0 { None } else { Some((gen_u32(t), gen_u32(t), gen_u32(t))) };
            WirePdu::EndOfData { v, session: gen_u16(t), serial: gen_u32(t), timing }
        }
        5 => WirePdu::CacheReset { v },
        6 => {
            let size = |t: &mut Tape| -> usize {
                if t.chance(1, 8) {
                    *t.pick(&[255usize, 256, 257, 1023, 1024, 1025, 4096, 65535, 65536])
                } else {
                    t.choose(40) as usize
                }
            };
            let plen = size(t);
            let tlen = size(t);
            WirePdu::Error {
                v,
                code: t.choose(12) as u16,
                pdu: match t.choose(3) {
                    0 => (0..plen).map(|i| i as u8).collect(),
                    1 => (0..plen).map(|i| 0xf0u8.wrapping_add(i as u8)).collect(),
                    _ => (0..plen).map(|_| t.choose(256) as u8).collect(),
                },
                // diagnostic text is "UTF-8" per the RFC but arrives as octets:
                // ASCII, well-formed multi-byte, Latin-1, truncated sequences
                text: match t.choose(5) {
                    0 => (0..tlen).map(|i| b'a' + (i % 26) as u8).collect(),
                    1 => "gr\u{fc}\u{df}e \u{20ac} \u{1F600}".as_bytes().iter().copied().cycle().take(tlen).collect(),
                    2 => (0..tlen).map(|i| 0xe0u8.wrapping_add(i as u8)).collect(),
                    3 => (0..tlen).map(|_| t.choose(256) as u8).collect(),
                    _ => { let mut v: Vec<u8> = (0..tlen).map(|i| b'a' + (i % 26) as u8).collect(); if let Some(l) = v.last_mut() { *l = 0xc3; } v }
                },
            }
        }
        _ => gen_payload_pdu(t, v),
    }
}

//------------ Library values --------------------------------------------------

/// A PDU built with the library's constructors, ready to be written.
enum LibPdu {
    SerialNotify(pdu::SerialNotify),
    SerialQuery(pdu::SerialQuery),
    ResetQuery(pdu::ResetQuery),
    CacheResponse(pdu::CacheResponse),
    EndOfData(pdu::EndOfData),
    CacheReset(pdu::CacheReset),
    Error(pdu::Error),
    Payload(pdu::Payload),
}

fn state(session: u16, serial: u32) -> State {
    State::from_parts(session, Serial(serial))
}

/// The payload item (library representation) corresponding to a payload PDU.
pub fn to_item(p: &WirePdu) -> Option<(Action, payload::Payload)> {
    match p {
        WirePdu::Ipv4 { flags, plen, maxlen, addr, asn, .. } => {
            let prefix = Prefix::new_v4_relaxed(Ipv4Addr::from(*addr), *plen).ok()?;
            let mlp = MaxLenPrefix::new(prefix, Some(*maxlen)).ok()?;
            Some((Action::from_flags(*flags), payload::Payload::origin(mlp, Asn::from_u32(*asn))))
        }
        WirePdu::Ipv6 { flags, plen, maxlen, addr, asn, .. } => {
            let prefix = Prefix::new_v6_relaxed(Ipv6Addr::from(*addr), *plen).ok()?;
            let mlp = MaxLenPrefix::new(prefix, Some(*maxlen)).ok()?;
            Some((Action::from_flags(*flags), payload::Payload::origin(mlp, Asn::from_u32(*asn))))
        }
        WirePdu::RouterKey { flags, ski, asn, spki, .. } => Some((
            Action::from_flags(*flags),
            payload::Payload::router_key(
                (*ski).into(),
                Asn::from_u32(*asn),
                pdu::RouterKeyInfo::new(Bytes::from(spki.clone())).ok()?,
            ),
        )),
        WirePdu::Aspa { flags, customer, providers, .. } => Some((
            Action::from_flags(*flags),
            payload::Payload::aspa(
                Asn::from_u32(*customer),
                pdu::ProviderAsns::try_from_iter(providers.iter().map(|p| Asn::from_u32(*p))).ok()?,
            ),
        )),
        _ => None,
    }
}

fn build(p: &WirePdu) -> LibPdu {
    match p {
        WirePdu::SerialNotify { v, session, serial } => {
            LibPdu::SerialNotify(pdu::SerialNotify::new(*v, state(*session, *serial)))
        }
        WirePdu::SerialQuery { v, session, serial } => {
            LibPdu::SerialQuery(pdu::SerialQuery::new(*v, state(*session, *serial)))
        }
        WirePdu::ResetQuery { v } => LibPdu::ResetQuery(pdu::ResetQuery::new(*v)),
        WirePdu::CacheResponse { v, session } => {
            LibPdu::CacheResponse(pdu::CacheResponse::new(*v, state(*session, 0)))
        }
        WirePdu::EndOfData { v, session, serial, timing } => {
            let timing = match timing {
                Some((refresh, retry, expire)) => {
                    payload::Timing { refresh: *refresh, retry: *retry, expire: *expire }
                }
                None => payload::Timing::default(),
            };
            LibPdu::EndOfData(pdu::EndOfData::new(*v, state(*session, *serial), timing))
        }
        WirePdu::CacheReset { v } => LibPdu::CacheReset(pdu::CacheReset::new(*v)),
        WirePdu::Error { v, code, pdu: inner, text } => {
            LibPdu::Error(pdu::Error::new(*v, *code, inner, text))
        }
        WirePdu::Ipv4 { v, flags, .. } | WirePdu::Ipv6 { v, flags, .. }
        | WirePdu::RouterKey { v, flags, .. } | WirePdu::Aspa { v, flags, .. } => {
            let (_, item) = to_item(p).expect("generated payload PDUs are valid items");
            LibPdu::Payload(pdu::Payload::new(*v, *flags, item.as_ref()))
        }
        WirePdu::Unknown { .. } => unreachable!(),
    }
}

async fn write_lib(p: &LibPdu, sock: &mut SimSocket) -> io::Result<()> {
    match p {
        LibPdu::SerialNotify(x) => x.write(sock).await,
        LibPdu::SerialQuery(x) => x.write(sock).await,
        LibPdu::ResetQuery(x) => x.write(sock).await,
        LibPdu::CacheResponse(x) => x.write(sock).await,
        LibPdu::EndOfData(x) => x.write(sock).await,
        LibPdu::CacheReset(x) => x.write(sock).await,
        LibPdu::Error(x) => x.write(sock).await,
        LibPdu::Payload(x) => x.write(sock).await,
    }
}

//------------ Readers ---------------------------------------------------------

/// Which library read entry point is exercised.
#[derive(Clone, Copy, Debug, PartialEq, Eq)]
pub enum Entry {
    /// `T::read`
    Read,
    /// `T::try_read` (fixed-size PDUs only)
    TryRead,
    /// `Header::read` followed by `T::read_payload`
    HeaderThenPayload,
    /// `pdu::Payload::read` (payload PDUs and End of Data)
    PayloadRead,
    /// `Header::read` followed by `EndOfData::read_payload`
    EodEnum,
    /// `Header::read` followed by `Error::skip_payload`
    ErrorSkip,
    /// `Header::read` followed by `SerialQueryPayload::read`
    SerialQueryPayload,
}

/// Which concrete type a reader targets.
#[derive(Clone, Copy, Debug, PartialEq, Eq)]
pub enum Ty {
    SerialNotify,
    SerialQuery,
    ResetQuery,
    CacheResponse,
    Ipv4,
    Ipv6,
    EodV0,
    EodV1,
    CacheReset,
    RouterKey,
    Aspa,
    /// entry point that is not specific to one type
    Any,
}

impl Ty {
    fn code_size(self) -> Option<(u8, u32)> {
        Some(match self {
            Ty::SerialNotify => (wire::T_NOTIFY, 12),
            Ty::SerialQuery => (wire::T_SERIAL_QUERY, 12),
            Ty::ResetQuery => (wire::T_RESET_QUERY, 8),
            Ty::CacheResponse => (wire::T_CACHE_RESPONSE, 8),
            Ty::Ipv4 => (wire::T_IPV4, 20),
            Ty::Ipv6 => (wire::T_IPV6, 32),
            Ty::EodV0 => (wire::T_EOD, 12),
            Ty::EodV1 => (wire::T_EOD, 24),
            Ty::CacheReset => (wire::T_CACHE_RESET, 8),
            Ty::RouterKey | Ty::Aspa | Ty::Any => return None,
        })
    }
}

/// What a reader returned, reduced to wire bytes via the library's accessors.
#[derive(Debug, PartialEq, Eq)]
pub enum Got {
    /// A value; its wire representation as reported by the library.
    Value(Vec<u8>),
    /// `try_read` saw an Error PDU header and handed it back.
    ErrorHeader(Vec<u8>),
    /// `skip_payload` finished.
    Skipped,
}

macro_rules! fixed_reader {
    ($t:ty, $entry:expr, $sock:expr) => {{
        match $entry {
            Entry::Read => <$t>::read($sock).await.map(|v| Got::Value(v.as_ref().to_vec())),
            Entry::TryRead => <$t>::try_read($sock).await.map(|r| match r {
                Ok(v) => Got::Value(v.as_ref().to_vec()),
                Err(h) => Got::ErrorHeader(h.as_ref().to_vec()),
            }),
            Entry::HeaderThenPayload => {
                let h = pdu::Header::read($sock).await?;
                <$t>::read_payload(h, $sock).await.map(|v| Got::Value(v.as_ref().to_vec()))
            }
            _ => unreachable!(),
        }
    }};
}

fn router_key_bytes(k: &pdu::RouterKey) -> Vec<u8> {
    WirePdu::RouterKey {
        v: k.version(),
        flags: k.flags(),
        ski: k.key_identifier(),
        asn: k.asn().into_u32(),
        spki: k.key_info().as_slice().to_vec(),
    }
    .encode()
}

fn aspa_bytes(a: &pdu::Aspa) -> Vec<u8> {
    WirePdu::Aspa {
        v: a.version(),
        flags: a.flags(),
        customer: a.customer().into_u32(),
        providers: a.providers().iter().map(|x| x.into_u32()).collect(),
    }
    .encode()
}

fn payload_bytes(p: &pdu::Payload) -> Vec<u8> {
    match p {
        pdu::Payload::V4(x) => x.as_ref().to_vec(),
        pdu::Payload::V6(x) => x.as_ref().to_vec(),
        pdu::Payload::RouterKey(k) => router_key_bytes(k),
        pdu::Payload::Aspa(a) => aspa_bytes(a),
        _ => Vec::new(),
    }
}

async fn run_reader(ty: Ty, entry: Entry, sock: &mut SimSocket) -> io::Result<Got> {
    match entry {
        Entry::PayloadRead => {
            return Ok(match pdu::Payload::read(sock).await? {
                Ok(Some(p)) => Got::Value(payload_bytes(&p)),
                Ok(None) => Got::Value(Vec::new()),
                Err(eod) => Got::Value(eod.as_ref().to_vec()),
            });
        }
        Entry::EodEnum => {
            let h = pdu::Header::read(sock).await?;
            return pdu::EndOfData::read_payload(h, sock).await.map(|v| Got::Value(v.as_ref().to_vec()));
        }
        Entry::ErrorSkip => {
            let h = pdu::Header::read(sock).await?;
            return pdu::Error::skip_payload(h, sock).await.map(|_| Got::Skipped);
        }
        Entry::SerialQueryPayload => {
            let h = pdu::Header::read(sock).await?;
            let p = pdu::SerialQueryPayload::read(sock).await?;
            let mut bytes = h.as_ref().to_vec();
            bytes.extend_from_slice(p.as_ref());
            return Ok(Got::Value(bytes));
        }
        _ => {}
    }
    match ty {
        Ty::SerialNotify => fixed_reader!(pdu::SerialNotify, entry, sock),
        Ty::SerialQuery => fixed_reader!(pdu::SerialQuery, entry, sock),
        Ty::ResetQuery => fixed_reader!(pdu::ResetQuery, entry, sock),
        Ty::CacheResponse => fixed_reader!(pdu::CacheResponse, entry, sock),
        Ty::Ipv4 => fixed_reader!(pdu::Ipv4Prefix, entry, sock),
        Ty::Ipv6 => fixed_reader!(pdu::Ipv6Prefix, entry, sock),
        Ty::EodV0 => fixed_reader!(pdu::EndOfDataV0, entry, sock),
        Ty::EodV1 => fixed_reader!(pdu::EndOfDataV1, entry, sock),
        Ty::CacheReset => fixed_reader!(pdu::CacheReset, entry, sock),
        Ty::RouterKey => match entry {
            Entry::Read => pdu::RouterKey::read(sock).await.map(|k| Got::Value(router_key_bytes(&k))),
            Entry::HeaderThenPayload => {
                let h = pdu::Header::read(sock).await?;
                pdu::RouterKey::read_payload(h, sock).await.map(|k| Got::Value(router_key_bytes(&k)))
            }
            _ => unreachable!(),
        },
        Ty::Aspa => match entry {
            Entry::Read => pdu::Aspa::read(sock).await.map(|a| Got::Value(aspa_bytes(&a))),
            Entry::HeaderThenPayload => {
                let h = pdu::Header::read(sock).await?;
                pdu::Aspa::read_payload(h, sock).await.map(|a| Got::Value(aspa_bytes(&a)))
            }
            _ => unreachable!(),
        },
        Ty::Any => unreachable!(),
    }
}

//------------ Reference model of the readers -----------------------------------

/// What the property requires of a reader applied to a finite stream.
#[derive(Debug, PartialEq, Eq)]
pub enum Expect {
    /// Must return this value after consuming exactly this many bytes.
    Ok(Got, usize),
    /// Must return an error.
    Err,
    /// The statement does not pin the outcome down (e.g. `read_payload` is
    /// handed a header of a different type by its caller): either an error,
    /// or exactly this value.
    Either(Got, usize),
}

fn be32(b: &[u8]) -> u32 {
    u32::from_be_bytes([b[0], b[1], b[2], b[3]])
}

pub fn model(ty: Ty, entry: Entry, s: &[u8]) -> Expect {
    if s.len() < 8 {
        return Expect::Err;
    }
    let v = s[0];
    let t = s[1];
    let ann = be32(&s[4..8]);
    let have = |n: u32| (s.len() as u64) >= n as u64;
    let value = |n: u32| Got::Value(s[..n as usize].to_vec());
    match entry {
        Entry::ErrorSkip => {
            if ann < 8 || !have(ann) {
                Expect::Err
            } else {
                Expect::Ok(Got::Skipped, ann as usize)
            }
        }
        Entry::SerialQueryPayload => {
            if have(12) { Expect::Ok(value(12), 12) } else { Expect::Err }
        }
        Entry::EodEnum => {
            let need = match v { 0 => 12, 1 | 2 => 24, _ => return Expect::Err };
            if ann != need || !have(need) {
                Expect::Err
            } else if t == wire::T_EOD {
                Expect::Ok(value(need), need as usize)
            } else {
                Expect::Either(value(need), need as usize)
            }
        }
        Entry::PayloadRead => match t {
            wire::T_IPV4 => if ann == 20 && have(20) { Expect::Ok(value(20), 20) } else { Expect::Err },
            wire::T_IPV6 => if ann == 32 && have(32) { Expect::Ok(value(32), 32) } else { Expect::Err },
            // For the two variable-size PDUs the value is re-encoded through
            // the accessors, which do not expose the reserved low byte of the
            // flags field: normalise it.
            wire::T_ROUTER_KEY => {
                if ann >= 32 && have(ann) {
                    let mut b = s[..ann as usize].to_vec();
                    b[3] = 0;
                    Expect::Ok(Got::Value(b), ann as usize)
                } else {
                    Expect::Err
                }
            }
            wire::T_ASPA => {
                if ann >= 12 && (ann - 12) % 4 == 0 && have(ann) {
                    let mut b = s[..ann as usize].to_vec();
                    b[3] = 0;
                    Expect::Ok(Got::Value(b), ann as usize)
                } else {
                    Expect::Err
                }
            }
            wire::T_EOD => {
                let need = match v { 0 => 12, 1 | 2 => 24, _ => return Expect::Err };
                if ann == need && have(need) { Expect::Ok(value(need), need as usize) } else { Expect::Err }
            }
            _ => Expect::Err,
        },
        Entry::Read | Entry::TryRead | Entry::HeaderThenPayload => {
            if let Some((code, size)) = ty.code_size() {
                if entry == Entry::TryRead && t == wire::T_ERROR {
                    return Expect::Ok(Got::ErrorHeader(s[..8].to_vec()), 8);
                }
                if entry != Entry::HeaderThenPayload && t != code {
                    return Expect::Err;
                }
                if ann != size || !have(size) {
                    return Expect::Err;
                }
                if t != code {
                    Expect::Either(value(size), size as usize)
                } else {
                    Expect::Ok(value(size), size as usize)
                }
            } else {
                let (code, min, modulo) = match ty {
                    Ty::RouterKey => (wire::T_ROUTER_KEY, 32u32, 1u32),
                    Ty::Aspa => (wire::T_ASPA, 12, 4),
                    _ => unreachable!(),
                };
                if entry == Entry::Read && t != code {
                    return Expect::Err;
                }
                if ann < min || (ann - min) % modulo != 0 || !have(ann) {
                    return Expect::Err;
                }
                // Re-encoding through the accessors normalises the type code
                // and the low byte of the flags field, so a value obtained via
                // read_payload from a foreign header is only loosely pinned.
                let mut bytes = s[..ann as usize].to_vec();
                let exact = t == code && bytes[3] == 0;
                bytes[1] = code;
                bytes[3] = 0;
                if exact {
                    Expect::Ok(Got::Value(bytes), ann as usize)
                } else if t == code {
                    // reserved byte non-zero: value is fine, re-encoding drops it
                    Expect::Ok(Got::Value(bytes), ann as usize)
                } else {
                    Expect::Either(Got::Value(bytes), ann as usize)
                }
            }
        }
    }
}

/// The set of reader entry points applicable to a PDU of the given kind.
fn readers_for(p: &WirePdu) -> Vec<(Ty, Entry)> {
    use Entry::*;
    let fixed = |ty: Ty| vec![(ty, Read), (ty, TryRead), (ty, HeaderThenPayload)];
    match p {
        WirePdu::SerialNotify { .. } => fixed(Ty::SerialNotify),
        WirePdu::SerialQuery { .. } => {
            let mut r = fixed(Ty::SerialQuery);
            r.push((Ty::Any, SerialQueryPayload));
            r
        }
        WirePdu::ResetQuery { .. } => fixed(Ty::ResetQuery),
        WirePdu::CacheResponse { .. } => fixed(Ty::CacheResponse),
        WirePdu::Ipv4 { .. } => {
            let mut r = fixed(Ty::Ipv4);
            r.push((Ty::Any, PayloadRead));
            r
        }
        WirePdu::Ipv6 { .. } => {
            let mut r = fixed(Ty::Ipv6);
            r.push((Ty::Any, PayloadRead));
            r
        }
        WirePdu::EndOfData { timing, .. } => {
            let mut r = fixed(if timing.is_some() { Ty::EodV1 } else { Ty::EodV0 });
            r.push((Ty::Any, PayloadRead));
            r.push((Ty::Any, EodEnum));
            r
        }
        WirePdu::CacheReset { .. } => fixed(Ty::CacheReset),
        WirePdu::RouterKey { .. } => vec![
            (Ty::RouterKey, Read),
            (Ty::RouterKey, HeaderThenPayload),
            (Ty::Any, PayloadRead),
        ],
        WirePdu::Aspa { .. } => vec![
            (Ty::Aspa, Read),
            (Ty::Aspa, HeaderThenPayload),
            (Ty::Any, PayloadRead),
        ],
        WirePdu::Error { .. } => vec![(Ty::Any, ErrorSkip)],
        WirePdu::Unknown { .. } => vec![],
    }
}

//------------ Running one reader on one finite stream --------------------------

struct ReadCase<'a> {
    ty: Ty,
    entry: Entry,
    stream: &'a [u8],
    /// Whether the writer closes after the stream (EOF) or just stalls.
    eof: bool,
    /// The header of this stream was deliberately corrupted. The statement
    /// then only requires termination with an error *or* a value faithful to
    /// the bytes: a reader is free to reject e.g. version 200, non-zero
    /// reserved bits or an oversized provider count, so acceptance is never
    /// demanded for such streams.
    corrupted: bool,
}

#[derive(Debug)]
enum ReadOutcome {
    Done(Result<Got, io::ErrorKind>, usize),
    /// Still pending with everything delivered and no EOF: legitimate wait.
    Waiting(usize),
}

/// Feeds `stream` to the reader under tape-chosen fragmentation and returns
/// what it did. Hangs and spins are reported as violations.
fn exec_read(
    ctx: &Arc<SimCtx>,
    case: &ReadCase,
    frag: Frag,
) -> Result<ReadOutcome, Violation> {
    let site = format!("{:?}/{:?}", case.ty, case.entry);
    ctx.reset_polls();
    guarded(&site, || {
        let pipe = new_pipe("wire", false, usize::MAX);
        {
            let mut p = pipe.lock().unwrap();
            p.short_reads = frag.short_reads;
            p.spurious_pending = frag.spurious;
            p.written.extend_from_slice(case.stream);
            p.outbox.extend(case.stream.iter().copied());
        }
        let back = new_pipe("back", true, usize::MAX);
        let (_peer, mut sock) = {
            // `sock` reads from `pipe`; `_peer` is kept alive so that the
            // stream only ends when the simulator says so.
            let a = SimSocket {
                rx: back.clone(),
                tx: pipe.clone(),
                ctx: ctx.clone(),
                updates: Default::default(),
            };
            let b = SimSocket {
                rx: pipe.clone(),
                tx: back.clone(),
                ctx: ctx.clone(),
                updates: Default::default(),
            };
            (a, b)
        };
        let ty = case.ty;
        let entry = case.entry;
        let mut task = Task::new(async { run_reader(ty, entry, &mut sock).await });
        let mut closed = false;
        let mut idle_polls = 0u32;
        loop {
            if task.woken() {
                if task.poll() {
                    break;
                }
                idle_polls += 1;
                if idle_polls > 100_000 {
                    return Err(Violation::new(
                        "spin",
                        site.clone(),
                        format!("{}: future keeps waking itself without completing", site),
                    ));
                }
                continue;
            }
            // The reader is parked. Let the simulator act.
            let mut p = pipe.lock().unwrap();
            if !p.outbox.is_empty() {
                let n = frag.next_chunk(ctx, p.outbox.len());
                p.deliver(n);
                idle_polls = 0;
            } else if case.eof && !closed {
                p.close_writer();
                closed = true;
            } else {
                drop(p);
                if task.woken() {
                    continue;
                }
                if case.eof {
                    return Err(Violation::new(
                        "deadlock",
                        site.clone(),
                        format!(
                            "{}: reader is pending although the stream has ended and nothing will wake it",
                            site
                        ),
                    ));
                }
                let p = pipe.lock().unwrap();
                if !p.inbox.is_empty() {
                    return Err(Violation::new(
                        "lost-wakeup",
                        site.clone(),
                        format!("{}: reader is pending with {} readable bytes and no wake-up", site, p.inbox.len()),
                    ));
                }
                return Ok(ReadOutcome::Waiting(p.n_read as usize));
            }
        }
        let res = task.done.take().unwrap();
        drop(task);
        let consumed = pipe.lock().unwrap().n_read as usize;
        pipe.lock().unwrap().self_check();
        Ok(ReadOutcome::Done(res.map_err(|e| e.kind()), consumed))
    })
}

/// Fragmentation policy of a read case.
#[derive(Clone, Copy, Debug)]
struct Frag {
    /// 0 = everything at once, 1 = one byte at a time, 2 = tape-chosen sizes.
    mode: u8,
    short_reads: bool,
    spurious: u64,
}

impl Frag {
    fn whole() -> Self {
        Frag { mode: 0, short_reads: false, spurious: 0 }
    }
    fn gen(t: &mut Tape) -> Self {
        Frag {
            mode: t.choose(3) as u8,
            short_reads: t.chance(1, 3),
            spurious: if t.chance(1, 4) { 3 } else { 0 },
        }
    }
    fn next_chunk(&self, ctx: &SimCtx, avail: usize) -> usize {
        match self.mode {
            0 => avail,
            1 => 1,
            _ => {
                // biased towards small chunks so that cuts land inside headers
                let cap = if ctx.chance(2, 3) { avail.min(12) } else { avail };
                1 + ctx.choose(cap as u64) as usize
            }
        }
    }
}

/// Checks one read case against the reference model.
fn check_read(
    ctx: &Arc<SimCtx>,
    case: &ReadCase,
    frag: Frag,
    what: &str,
) -> Result<(), Violation> {
    let out = exec_read(ctx, case, frag)?;
    let site = format!("{:?}/{:?}", case.ty, case.entry);
    let expect = match model(case.ty, case.entry, case.stream) {
        Expect::Ok(w, n) if case.corrupted => Expect::Either(w, n),
        e => e,
    };
    let ann = if case.stream.len() >= 8 { be32(&case.stream[4..8]) as usize } else { 8 };
    match out {
        ReadOutcome::Waiting(consumed) => {
            // Only legitimate if the reader genuinely needs more bytes.
            match expect {
                Expect::Err if !case.eof => {
                    if consumed > case.stream.len() {
                        crate::common::harness_fail("consumed more than delivered");
                    }
                    Ok(())
                }
                _ => Err(Violation::new(
                    "stuck-read",
                    site.clone(),
                    format!("{} [{}]: reader waits although a complete PDU is available; stream={}", site, what, hex(case.stream)),
                )),
            }
        }
        ReadOutcome::Done(res, consumed) => {
            if consumed > case.stream.len() {
                crate::common::harness_fail("consumed more than delivered");
            }
            // SerialQueryPayload::read is a fixed 4-byte read that follows a
            // header the *caller* has validated; the length field plays no
            // role in it.
            let bound = if case.entry == Entry::SerialQueryPayload { 12 } else { ann.max(8) };
            if consumed > bound {
                return Err(Violation::new(
                    "over-read",
                    site.clone(),
                    format!(
                        "{} [{}]: consumed {} bytes for a PDU announcing {}; stream={}",
                        site, what, consumed, ann, hex(case.stream)
                    ),
                ));
            }
            match (expect, res) {
                (Expect::Ok(want, n), Ok(got)) | (Expect::Either(want, n), Ok(got)) => {
                    if got != want {
                        return Err(Violation::new(
                            "wrong-value",
                            site.clone(),
                            format!(
                                "{} [{}]: read back {:?}, expected {:?}; stream={}",
                                site, what, got_hex(&got), got_hex(&want), hex(case.stream)
                            ),
                        ));
                    }
                    if consumed != n {
                        return Err(Violation::new(
                            "misframed",
                            site.clone(),
                            format!(
                                "{} [{}]: consumed {} bytes, PDU occupies {}; stream={}",
                                site, what, consumed, n, hex(case.stream)
                            ),
                        ));
                    }
                    Ok(())
                }
                (Expect::Ok(want, _), Err(kind)) => {
                    if !case.eof && kind == io::ErrorKind::UnexpectedEof {
                        crate::common::harness_fail("EOF error without EOF");
                    }
                    Err(Violation::new(
                        "spurious-error",
                        site.clone(),
                        format!(
                            "{} [{}]: well-formed PDU rejected with {:?}; expected {:?}; stream={}",
                            site, what, kind, got_hex(&want), hex(case.stream)
                        ),
                    ))
                }
                (Expect::Err, Ok(got)) => Err(Violation::new(
                    "accepted-bad",
                    site.clone(),
                    format!(
                        "{} [{}]: stream with wrong type/length/version or early end was accepted as {:?}; stream={}",
                        site, what, got_hex(&got), hex(case.stream)
                    ),
                )),
                (Expect::Err, Err(_)) | (Expect::Either(..), Err(_)) => Ok(()),
            }
        }
    }
}

fn got_hex(g: &Got) -> String {
    match g {
        Got::Value(b) => format!("Value({})", hex(b)),
        Got::ErrorHeader(b) => format!("ErrorHeader({})", hex(b)),
        Got::Skipped => "Skipped".into(),
    }
}


//------------ Accessor audit ----------------------------------------------------

/// Polls a future that can never be pending (it reads from a slice).
fn now<T>(fut: impl std::future::Future<Output = T>) -> T {
    let mut t = Task::new(fut);
    if !t.poll() {
        crate::common::harness_fail("slice-backed read was pending");
    }
    t.done.take().unwrap()
}

/// Reads the PDU back from its wire bytes and compares every public accessor
/// of the value with the generated fields ("yields the same item, action,
/// version, session and serial").
fn accessor_audit(p: &WirePdu, invalid_body: bool) -> Result<(), Violation> {
    let enc = p.encode();
    let site = format!("accessors/type-{}", p.type_code());
    let bad = |what: &str, got: String, want: String| {
        Err(Violation::new(
            "accessor-mismatch",
            format!("type-{}/{}", p.type_code(), what),
            format!("{} read back from {}: {} is {}, expected {}", wire::describe(p), hex(&enc), what, got, want),
        ))
    };
    macro_rules! eq {
        ($what:expr, $got:expr, $want:expr) => {
            if $got != $want {
                return bad($what, format!("{:?}", $got), format!("{:?}", $want));
            }
        };
    }
    guarded(&site, || {
        let mut src = &enc[..];
        match p {
            WirePdu::SerialNotify { v, session, .. } => {
                let x = now(pdu::SerialNotify::read(&mut src)).map_err(|e| Violation::new("spurious-error", site.clone(), e.to_string()))?;
                eq!("version", x.version(), *v);
                eq!("session", x.session(), *session);
                eq!("size", pdu::SerialNotify::size() as usize, enc.len());
            }
            WirePdu::SerialQuery { v, session, serial } => {
                let h = now(pdu::Header::read(&mut src)).map_err(|e| Violation::new("spurious-error", site.clone(), e.to_string()))?;
                let pl = now(pdu::SerialQueryPayload::read(&mut src)).map_err(|e| Violation::new("spurious-error", site.clone(), e.to_string()))?;
                eq!("header.version", h.version(), *v);
                eq!("header.pdu", h.pdu(), wire::T_SERIAL_QUERY);
                eq!("header.session", h.session(), *session);
                eq!("header.length", h.length(), 12u32);
                eq!("header.pdu_len", h.pdu_len().ok(), Some(12usize));
                eq!("payload.serial", u32::from(pl.serial()), *serial);
            }
            WirePdu::ResetQuery { v } => {
                let x = now(pdu::ResetQuery::read(&mut src)).map_err(|e| Violation::new("spurious-error", site.clone(), e.to_string()))?;
                eq!("version", x.version(), *v);
            }
            WirePdu::CacheResponse { v, session } => {
                let x = now(pdu::CacheResponse::read(&mut src)).map_err(|e| Violation::new("spurious-error", site.clone(), e.to_string()))?;
                eq!("version", x.version(), *v);
                eq!("session", x.session(), *session);
            }
            WirePdu::CacheReset { v } => {
                let x = now(pdu::CacheReset::read(&mut src)).map_err(|e| Violation::new("spurious-error", site.clone(), e.to_string()))?;
                eq!("version", x.version(), *v);
            }
            WirePdu::EndOfData { v, session, serial, timing } => {
                let r = now(pdu::Payload::read(&mut src)).map_err(|e| Violation::new("spurious-error", site.clone(), e.to_string()))?;
                let eod = match r {
                    Err(eod) => eod,
                    Ok(_) => return bad("kind", "payload".into(), "end of data".into()),
                };
                eq!("version", eod.version(), *v);
                eq!("session", eod.session(), *session);
                eq!("serial", u32::from(eod.serial()), *serial);
                eq!("state.session", eod.state().session(), *session);
                eq!("state.serial", u32::from(eod.state().serial()), *serial);
                eq!("timing", eod.timing().map(|t| (t.refresh, t.retry, t.expire)), *timing);
            }
            WirePdu::Ipv4 { .. } | WirePdu::Ipv6 { .. } | WirePdu::RouterKey { .. } | WirePdu::Aspa { .. } => {
                let r = match now(pdu::Payload::read(&mut src)) {
                    Ok(r) => r,
                    // a reader may refuse a body that denotes no item
                    Err(_) if invalid_body => return Ok(()),
                    Err(e) => return Err(Violation::new("spurious-error", site.clone(), e.to_string())),
                };
                let pl = match r {
                    Ok(Some(pl)) => pl,
                    _ => return bad("kind", "not a payload".into(), "payload".into()),
                };
                eq!("version", pl.version(), p.version());
                match (&pl, p) {
                    (pdu::Payload::V4(x), WirePdu::Ipv4 { flags, plen, maxlen, addr, asn, .. }) => {
                        eq!("flags", x.flags(), *flags);
                        eq!("prefix_len", x.prefix_len(), *plen);
                        eq!("max_len", x.max_len(), *maxlen);
                        eq!("prefix", u32::from(x.prefix()), *addr);
                        eq!("asn", x.asn().into_u32(), *asn);
                    }
                    (pdu::Payload::V6(x), WirePdu::Ipv6 { flags, plen, maxlen, addr, asn, .. }) => {
                        eq!("flags", x.flags(), *flags);
                        eq!("prefix_len", x.prefix_len(), *plen);
                        eq!("max_len", x.max_len(), *maxlen);
                        eq!("prefix", u128::from(x.prefix()), *addr);
                        eq!("asn", x.asn().into_u32(), *asn);
                    }
                    (pdu::Payload::RouterKey(x), WirePdu::RouterKey { flags, ski, asn, spki, .. }) => {
                        eq!("flags", x.flags(), *flags);
                        eq!("key_identifier", x.key_identifier(), *ski);
                        eq!("asn", x.asn().into_u32(), *asn);
                        eq!("key_info", x.key_info().as_slice(), &spki[..]);
                        eq!("key_info.into_bytes", &x.key_info().clone().into_bytes()[..], &spki[..]);
                        eq!("into_key_info", x.clone().into_key_info().as_slice(), &spki[..]);
                        eq!("size", x.size() as usize, enc.len());
                    }
                    (pdu::Payload::Aspa(x), WirePdu::Aspa { flags, customer, providers, .. }) => {
                        eq!("flags", x.flags(), *flags);
                        eq!("customer", x.customer().into_u32(), *customer);
                        eq!("providers", x.providers().iter().map(|a| a.into_u32()).collect::<Vec<_>>(), *providers);
                        eq!("providers.len", x.providers().len(), providers.len() * 4);
                        eq!("providers.is_empty", x.providers().is_empty(), providers.is_empty());
                        eq!("into_providers", x.clone().into_providers().iter().map(|a| a.into_u32()).collect::<Vec<_>>(), *providers);
                        eq!("size", x.size() as usize, enc.len());
                        if providers.len() <= 65535 {
                            eq!("asn_count", x.providers().asn_count() as usize, providers.len());
                        }
                    }
                    _ => return bad("variant", format!("{:?}", pl), wire::describe(p)),
                }
                // the partial slice (fixed part) is what error reports quote
                let fixed = match p {
                    WirePdu::Ipv4 { .. } => 20,
                    WirePdu::Ipv6 { .. } => 32,
                    WirePdu::RouterKey { .. } => 32,
                    _ => 12,
                };
                eq!("as_partial_slice", pl.as_partial_slice(), &enc[..fixed.min(enc.len())]);
                eq!("payload.flags", pl.flags(), match p {
                    WirePdu::Ipv4 { flags, .. } | WirePdu::Ipv6 { flags, .. } | WirePdu::RouterKey { flags, .. } | WirePdu::Aspa { flags, .. } => *flags,
                    _ => 0,
                });
                // to_payload: for a valid item it must give back exactly the
                // generated fields (validity decided by integer comparison here,
                // not by the library's constructors); for an invalid body
                // (gen_invalid_origin) the statement says nothing beyond "no
                // panic", so the outcome is only counted by the caller.
                let valid = match p {
                    WirePdu::Ipv4 { plen, maxlen, .. } => *plen <= 32 && *plen <= *maxlen && *maxlen <= 32,
                    WirePdu::Ipv6 { plen, maxlen, .. } => *plen <= 128 && *plen <= *maxlen && *maxlen <= 128,
                    // (an ASPA PDU with more providers than the library writes)
                    WirePdu::Aspa { .. } => !invalid_body,
                    _ => true,
                };
                let res = pl.to_payload();
                if valid {
                    let (a, it) = match res {
                        Ok(x) => x,
                        Err(_) => return bad("to_payload", "rejected".into(), "the item".into()),
                    };
                    let want_action = if pl.flags() & 1 == 1 { Action::Announce } else { Action::Withdraw };
                    eq!("to_payload.action", a, want_action);
                    let (key, prov) = crate::source::from_payload(&it);
                    use crate::source::Key;
                    match (p, &key) {
                        (WirePdu::Ipv4 { plen, maxlen, addr, asn, .. }, Key::Origin { v6: false, addr: a2, plen: p2, maxlen: m2, asn: n2 }) => {
                            eq!("to_payload.origin", (*a2 as u32, *p2, *m2, *n2), (*addr, *plen, *maxlen, *asn));
                        }
                        (WirePdu::Ipv6 { plen, maxlen, addr, asn, .. }, Key::Origin { v6: true, addr: a2, plen: p2, maxlen: m2, asn: n2 }) => {
                            eq!("to_payload.origin", (*a2, *p2, *m2, *n2), (*addr, *plen, *maxlen, *asn));
                        }
                        (WirePdu::RouterKey { ski, asn, spki, .. }, Key::RouterKey { ski: s2, asn: n2, spki: k2 }) => {
                            eq!("to_payload.router_key", (s2, n2, k2), (ski, asn, spki));
                        }
                        (WirePdu::Aspa { customer, providers, .. }, Key::Aspa { customer: c2 }) => {
                            eq!("to_payload.aspa.customer", c2, customer);
                            if want_action == Action::Announce {
                                eq!("to_payload.aspa.providers", &prov, providers);
                            }
                        }
                        _ => return bad("to_payload", format!("{:?}", it), wire::describe(p)),
                    }
                }
            }
            WirePdu::Error { .. } | WirePdu::Unknown { .. } => {}
        }
        Ok(())
    })
}

/// Payload PDUs whose body is invalid (prefix length beyond the family, max
/// length below the prefix length or beyond the family). They denote no item,
/// so the statement only requires that reading and converting them does not
/// panic (and that the accessors are faithful if the read succeeds).
fn gen_invalid_origin(t: &mut Tape) -> WirePdu {
    let v = t.choose(3) as u8;
    let flags = t.choose(2) as u8;
    let v6 = t.chance(1, 2);
    let w: u8 = if v6 { 128 } else { 32 };
    let (plen, maxlen) = match t.choose(4) {
        0 => (w + 1 + t.choose(100) as u8, w),
        1 => (t.choose(w as u64 + 1) as u8, w + 1 + t.choose(100) as u8),
        2 => {
            let pl = 1 + t.choose(w as u64) as u8;
            (pl, t.choose(pl as u64) as u8)
        }
        _ => (255, 255),
    };
    if v6 {
        WirePdu::Ipv6 { v, flags, plen, maxlen, addr: 0x2001_0db8u128 << 96, asn: gen_u32(t) }
    } else {
        WirePdu::Ipv4 { v, flags, plen, maxlen, addr: 0xC000_0200, asn: gen_u32(t) }
    }
}

//------------ The run ----------------------------------------------------------

/// Header corruptions of one encoded PDU: every single-bit flip plus targeted
/// field rewrites. `big` admits lengths that make the reader allocate GiBs.
/// Can this environment hand out a buffer of 4 GiB? The library sizes its
/// buffer for the variable part of a Router Key or ASPA PDU from the announced
/// length; where the operating system refuses such a request (a small machine,
/// RLIMIT_AS, strict overcommit) the allocation failure ABORTS the process - a
/// property of the environment, not a verdict about reading PDUs. Announced
/// lengths above 16 MiB are therefore only tried where the request is granted.
pub(crate) fn huge_alloc_granted() -> bool {
    static CACHE: std::sync::OnceLock<bool> = std::sync::OnceLock::new();
    *CACHE.get_or_init(|| {
        let mut v: Vec<u8> = Vec::new();
        v.try_reserve_exact(u32::MAX as usize + 4096).is_ok()
    })
}

pub(crate) fn corruptions(enc: &[u8]) -> Vec<(String, Vec<u8>)> {
    let mut out = Vec::new();
    for bit in 0..64usize {
        let mut c = enc.to_vec();
        c[bit / 8] ^= 0x80 >> (bit % 8);
        out.push((format!("flip-bit-{}", bit), c));
    }
    let orig_ty = enc[1];
    for ty in 0u8..=12 {
        if ty != orig_ty {
            let mut c = enc.to_vec();
            c[1] = ty;
            out.push((format!("type-{}", ty), c));
        }
    }
    {
        let mut c = enc.to_vec();
        c[1] = 255;
        out.push(("type-255".into(), c));
    }
    let size = enc.len() as u32;
    for len in [0u32, 7, 8, size.wrapping_sub(1), size + 1, size + 4, 1 << 16, u32::MAX] {
        let mut c = enc.to_vec();
        c[4..8].copy_from_slice(&len.to_be_bytes());
        out.push((format!("length-{}", len), c));
    }
    for v in [3u8, 4, 127, 128, 255] {
        let mut c = enc.to_vec();
        c[0] = v;
        out.push((format!("version-{}", v), c));
    }
    out
}

impl C07 {
    /// Fault-free class: writer and reader tasks under a hand scheduler.
    fn roundtrip(
        &self,
        ctx: &Arc<SimCtx>,
        seq: &[WirePdu],
        counters: &mut Counters,
    ) -> Result<(), Violation> {
        let expected: Vec<Vec<u8>> = seq.iter().map(|p| p.encode()).collect();
        let libs: Vec<LibPdu> = seq.iter().map(build).collect();
        let (cap, short_writes, short_reads, spurious, chunk_mode) = {
            let mut t = ctx.tape.lock().unwrap();
            (
                *t.pick(&[usize::MAX, 1, 7, 16, 64]),
                t.chance(1, 2),
                t.chance(1, 2),
                if t.chance(1, 4) { 3 } else { 0 },
                t.choose(3) as u8,
            )
        };
        let frag = Frag { mode: chunk_mode, short_reads, spurious };

        ctx.reset_polls();
        guarded("roundtrip", || {
            let fwd = new_pipe("w->r", false, cap);
            {
                let mut p = fwd.lock().unwrap();
                p.short_writes = short_writes;
                p.short_reads = short_reads;
                p.spurious_pending = spurious;
            }
            let back = new_pipe("r->w", true, usize::MAX);
            let (mut wsock, mut rsock) = socket_pair(ctx, fwd.clone(), back);

            // Writer task: writes every PDU, recording the stream offset
            // after each so that "length field == bytes written" can be
            // checked per PDU.
            let offsets = std::cell::RefCell::new(Vec::<usize>::new());
            let fwd_w = fwd.clone();
            let libs_ref = &libs;
            let offsets_ref = &offsets;
            let mut writer = Task::new(async move {
                for lib in libs_ref {
                    write_lib(lib, &mut wsock).await?;
                    offsets_ref.borrow_mut().push(fwd_w.lock().unwrap().written.len());
                }
                drop(wsock);
                Ok::<(), io::Error>(())
            });

            // Reader task: reads the sequence back with one (tape-chosen)
            // applicable entry point per PDU.
            let plan: Vec<(Ty, Entry)> = seq
                .iter()
                .map(|p| {
                    let r = readers_for(p);
                    r[ctx.choose(r.len() as u64) as usize]
                })
                .collect();
            let plan_ref = &plan;
            let mut reader = Task::new(async move {
                let mut got = Vec::new();
                for (ty, entry) in plan_ref {
                    got.push(run_reader(*ty, *entry, &mut rsock).await.map_err(|e| e.kind()));
                }
                // After the last PDU the stream must be at EOF.
                let mut probe = [0u8; 1];
                let tail = tokio::io::AsyncReadExt::read(&mut rsock, &mut probe).await;
                (got, tail.map_err(|e| e.kind()))
            });

            let mut steps = 0u64;
            loop {
                steps += 1;
                if steps > 2_000_000 {
                    return Err(Violation::new("spin", "roundtrip", "writer/reader never finish"));
                }
                let w_ready = !writer.is_done() && writer.woken();
                let r_ready = !reader.is_done() && reader.woken();
                let deliverable = !fwd.lock().unwrap().outbox.is_empty();
                if writer.is_done() && reader.is_done() {
                    break;
                }
                let mut options: Vec<u8> = Vec::new();
                if w_ready { options.push(0); }
                if r_ready { options.push(1); }
                if deliverable { options.push(2); }
                if options.is_empty() {
                    let p = fwd.lock().unwrap();
                    return Err(Violation::new(
                        "deadlock",
                        "roundtrip",
                        format!(
                            "writer done={} reader done={} but nobody is runnable (inbox {}, outbox {}, closed {})",
                            writer.is_done(), reader.is_done(), p.inbox.len(), p.outbox.len(), p.writer_closed
                        ),
                    ));
                }
                match options[ctx.choose(options.len() as u64) as usize] {
                    0 => { writer.poll(); }
                    1 => { reader.poll(); }
                    _ => {
                        let mut p = fwd.lock().unwrap();
                        let n = frag.next_chunk(ctx, p.outbox.len());
                        p.deliver(n);
                    }
                }
            }
            counters.add("sched_steps", steps);

            // Oracle 1: bytes on the wire equal the independent encoding and
            // each length field equals the number of bytes written.
            if let Some(Err(e)) = writer.done.as_ref() {
                return Err(Violation::new("write-error", "roundtrip", format!("write failed on a healthy stream: {}", e)));
            }
            let stream = fwd.lock().unwrap().written.clone();
            let offs = offsets.borrow().clone();
            let mut start = 0usize;
            for (i, end) in offs.iter().enumerate() {
                let bytes = &stream[start..*end];
                if bytes != &expected[i][..] {
                    return Err(Violation::new(
                        "wrong-bytes",
                        format!("type-{}", seq[i].type_code()),
                        format!(
                            "PDU #{} {}: library wrote {}, RFC layout is {}",
                            i, wire::describe(&seq[i]), hex(bytes), hex(&expected[i])
                        ),
                    ));
                }
                let ann = be32(&bytes[4..8]) as usize;
                if ann != bytes.len() {
                    return Err(Violation::new(
                        "length-field",
                        format!("type-{}", seq[i].type_code()),
                        format!("PDU #{}: length field {} but {} bytes written", i, ann, bytes.len()),
                    ));
                }
                start = *end;
            }
            // Oracle 2: what was read equals what was written.
            let (got, tail) = reader.done.take().unwrap();
            for (i, g) in got.iter().enumerate() {
                let (ty, entry) = plan[i];
                let want = match model(ty, entry, &expected[i]) {
                    Expect::Ok(w, _) | Expect::Either(w, _) => w,
                    Expect::Err => crate::common::harness_fail("model rejects a generated PDU"),
                };
                match g {
                    Ok(g) if *g == want => {}
                    other => {
                        return Err(Violation::new(
                            "roundtrip-mismatch",
                            format!("{:?}/{:?}", ty, entry),
                            format!(
                                "PDU #{} {} read back via {:?}/{:?} as {:?}, expected {}",
                                i, wire::describe(&seq[i]), ty, entry, other, got_hex(&want)
                            ),
                        ));
                    }
                }
            }
            if tail != Ok(0) {
                return Err(Violation::new(
                    "misframed",
                    "roundtrip-tail",
                    format!("after reading all PDUs the stream is not at EOF: {:?}", tail),
                ));
            }
            fwd.lock().unwrap().self_check();
            Ok(())
        })
    }

    /// Item level: payload item -> PDU -> wire -> PDU -> item.
    fn item_roundtrip(&self, ctx: &Arc<SimCtx>, p: &WirePdu) -> Result<(), Violation> {
        let (action, item) = match to_item(p) {
            Some(x) => x,
            None => return Ok(()),
        };
        let v = p.version();
        let lib = pdu::Payload::new(v, action.into_flags(), item.as_ref());
        let enc = p.encode();
        // through the wire
        let frag = Frag { mode: 2, short_reads: true, spurious: 0 };
        let case = ReadCase { ty: Ty::Any, entry: Entry::PayloadRead, stream: &enc, eof: true, corrupted: false };
        check_read(ctx, &case, frag, "item")?;
        // and the pure conversion
        guarded("to_payload", || {
            let back = lib.to_payload();
            match back {
                Ok((a, it)) => {
                    let same_item = match (&it, &item) {
                        (payload::Payload::Aspa(x), payload::Payload::Aspa(y)) if action == Action::Withdraw => {
                            x.customer == y.customer
                        }
                        _ => it == item,
                    };
                    if a != action || !same_item || lib.version() != v {
                        return Err(Violation::new(
                            "item-mismatch",
                            format!("type-{}", p.type_code()),
                            format!("item {:?}/{:?} came back as {:?}/{:?}", action, item, a, it),
                        ));
                    }
                    Ok(())
                }
                Err(_) => Err(Violation::new(
                    "item-rejected",
                    format!("type-{}", p.type_code()),
                    format!("valid item {:?} rejected by to_payload", item),
                )),
            }
        })?;
        // An origin whose max length equals its prefix length can be spelled
        // without an explicit max length. It is the same item: it must go out
        // as the same PDU and what comes back must be `==` to it, both ways.
        let implicit = match p {
            WirePdu::Ipv4 { plen, maxlen, addr, asn, .. } if plen == maxlen => Prefix::new_v4_relaxed(Ipv4Addr::from(*addr), *plen)
                .ok()
                .and_then(|pfx| MaxLenPrefix::new(pfx, None).ok())
                .map(|m| payload::Payload::origin(m, Asn::from_u32(*asn))),
            WirePdu::Ipv6 { plen, maxlen, addr, asn, .. } if plen == maxlen => Prefix::new_v6_relaxed(Ipv6Addr::from(*addr), *plen)
                .ok()
                .and_then(|pfx| MaxLenPrefix::new(pfx, None).ok())
                .map(|m| payload::Payload::origin(m, Asn::from_u32(*asn))),
            _ => None,
        };
        if let Some(alt) = implicit {
            ctx.bump("probe_origin_spelled_without_max_len");
            guarded("to_payload", || {
                let lib2 = pdu::Payload::new(v, action.into_flags(), alt.as_ref());
                let same_pdu = lib2.as_partial_slice() == lib.as_partial_slice();
                match lib2.to_payload() {
                    Ok((a, it)) if a == action && it == alt && alt == it && it == item && same_pdu => Ok(()),
                    other => Err(Violation::new(
                        "item-mismatch",
                        format!("type-{}-implicit-max-len", p.type_code()),
                        format!(
                            "origin {:?} spelled without max length came back as {:?} (same PDU octets: {}); the same item with explicit max length is {:?}",
                            alt, other.map(|(a, it)| format!("{:?}/{:?}", a, it)).map_err(|_| "rejected"), same_pdu, item
                        ),
                    )),
                }
            })?;
        }
        Ok(())
    }
}

impl Scenario for C07 {
    fn id(&self) -> &'static str { "C07" }
    fn name(&self) -> &'static str { "rtr-wire" }
    fn level(&self) -> &'static str { "fault_enumeration" }

    fn sweep_len(&self, _tier: Tier) -> u64 {
        // one sweep run per (PDU kind x version): see `sweep_pdu`
        11 * 3
    }

    fn random_runs(&self, tier: Tier) -> u64 {
        match tier { Tier::Quick => 2_500, Tier::Thorough => 60_000 }
    }

    fn run(&self, kind: RunKind, tier: Tier, tape: Tape, log: bool) -> (RunOut, Tape) {
        let ctx = Arc::new(SimCtx::new(tape, log, 50_000_000));
        let mut out = RunOut::default();
        let mut counters = Counters::default();
        let res = match std::panic::catch_unwind(std::panic::AssertUnwindSafe(|| self.run_inner(kind, tier, &ctx, &mut out, &mut counters))) {
            Ok(r) => r,
            Err(p) => Err(crate::exec::violation_from_panic("run", p)),
        };
        out.violation = res.err();
        counters.merge(&ctx.counters.lock().unwrap());
        out.counters = counters;
        out.nontrivial = out.evaluations > 0;
        let mut lg = ctx.log.lock().unwrap();
        out.sig = lg.sig;
        if out.violation.is_some() && lg.lines.len() > 6 {
            // the trace of a failing run: the sequence, then only the last
            // enumerated cases (the failing one is the last)
            let n = lg.lines.len();
            let mut keep = vec![lg.lines[0].clone(), format!("... {} enumerated cases passed ...", n - 4)];
            keep.extend_from_slice(&lg.lines[n - 3..]);
            lg.lines = keep;
        }
        out.log = std::mem::take(&mut lg.lines);
        drop(lg);
        let tape = ctx.tape.lock().unwrap().clone();
        (out, tape)
    }

    fn rule(&self) -> &'static str {
        "A run generates one PDU sequence (1-8 PDUs; all control PDUs, all four payload kinds, both \
         actions, versions 0-2, boundary prefix lengths, key-info sizes 0..200 and 70000, provider \
         counts 0..50 and MAX_COUNT), runs it fault-free through concurrently scheduled writer and \
         reader tasks, and then ENUMERATES for every PDU of the sequence and every applicable \
         library read entry point: every truncation offset (EOF after k bytes) and a stall at \
         sampled offsets, every single-bit flip of the 8-byte header, and targeted rewrites of type, \
         length and version. The same faults are then applied one level up: a whole reply (data \
         response to a Reset or Serial Query, Cache Reset + response, Error Report with any code, version \
         downgrade) is read by the real rtr::Client::step() on a paused tokio clock under every \
         truncation offset, every header corruption of every PDU and every PDU of the data response \
         restamped to every other supported version. evaluations = number of (stream, reader, fault, fragmentation) cases \
         executed. A case is non-trivial if a library reader was actually polled on it; distinct = \
         distinct hash of (reader, faulted stream bytes, eof flag) counted in a bitmap (lower bound)."
    }

    fn components(&self) -> (Vec<&'static str>, Vec<&'static str>) {
        (
            vec![
                "rpki::rtr::pdu::{SerialNotify,SerialQuery,ResetQuery,CacheResponse,Ipv4Prefix,Ipv6Prefix,EndOfDataV0,EndOfDataV1,CacheReset}::{write,read,try_read,read_payload}",
                "rpki::rtr::pdu::{RouterKey,Aspa}::{write,read,read_payload}",
                "rpki::rtr::pdu::Payload::{new,write,read,to_payload}",
                "rpki::rtr::pdu::EndOfData::{new,write,read_payload}",
                "rpki::rtr::pdu::Error::{new,write,skip_payload}",
                "rpki::rtr::pdu::{Header,SerialQueryPayload}::read",
                "rpki::rtr::client::Client::{with_initial_version,step,update,serial,reset,apply} incl. FirstSerialReply/FirstResetReply, version negotiation and IO_TIMEOUT (client level)",
                "tokio::io::{AsyncReadExt::read_exact, AsyncWriteExt::write_all}, tokio::time (paused clock) at the client level",
            ],
            vec![
                "SimSocket/pipe (in-memory stream, simulator-controlled delivery, short reads/writes, spurious Pending, back-pressure, EOF)",
                "hand scheduler (flag wakers) for writer and reader tasks",
                "client level: the cache is a byte string built by the independent codec and injected into the simulated socket (closed or left open afterwards); ModelTarget records what the client hands on",
                "independent RFC 6810/8210/8210bis codec and per-entry-point reference model (oracle)",
            ],
        )
    }

    fn vacuous(&self, totals: &Counters) -> Option<String> {
        if totals.get("client_steps_completed") == 0 {
            return Some("client level: no Client::step() ever completed, not even on an intact reply".into());
        }
        if totals.get("client_second_steps_failed_as_they_must") == 0 {
            return Some("client level: the wait between two steps was never exercised".into());
        }
        if totals.get("fault_client_one_pdu_in_other_supported_version") == 0 {
            return Some("client level: no reply with one PDU in another version was ever tried".into());
        }
        None
    }

    fn assumptions(&self) -> Vec<&'static str> {
        vec![
            "the independent codec and the reader reference model in c07.rs transcribe the RFC layouts correctly",
            "a stream socket never reorders, duplicates or corrupts bytes on its own; corruption is injected only in the 8-byte header as the statement asks",
            "for a deliberately corrupted header the reader must terminate within the byte bound with an error OR the value its bytes denote (never a different value, never a hang); acceptance is only demanded for intact PDUs",
            "read_payload handed a header of another type may either fail or return the value the bytes denote",
        ]
    }
}

impl C07 {
    /// A reduced pass for `cargo +nightly miri run -- miri-smoke`: every PDU
    /// kind x version through the writer/reader tasks, the item round trip
    /// and the accessor audit (this is where the `repr(C, packed)` structs
    /// are viewed as byte slices), without the fault enumeration.
    pub fn smoke(&self) -> Result<u64, Violation> {
        let mut n = 0;
        for idx in 0..33u64 {
            let ctx = Arc::new(SimCtx::new(Tape::generate(idx), false, 50_000_000));
            let p = { let mut t = ctx.tape.lock().unwrap(); Self::sweep_pdu(idx, &mut t) };
            let mut counters = Counters::default();
            self.roundtrip(&ctx, &[p.clone()], &mut counters)?;
            if p.is_payload() {
                self.item_roundtrip(&ctx, &p)?;
            }
            accessor_audit(&p, false)?;
            let enc = p.encode();
            for k in [0usize, 3, 8, enc.len() - 1] {
                for (ty, entry) in readers_for(&p) {
                    let case = ReadCase { ty, entry, stream: &enc[..k.min(enc.len())], eof: true, corrupted: false };
                    check_read(&ctx, &case, Frag { mode: 1, short_reads: false, spurious: 0 }, "smoke")?;
                    n += 1;
                }
            }
            n += 3;
        }
        Ok(n)
    }

    fn sweep_pdu(idx: u64, t: &mut Tape) -> WirePdu {
        let v = (idx % 3) as u8;
        match idx / 3 {
            0 => WirePdu::SerialNotify { v, session: gen_u16(t), serial: gen_u32(t) },
            1 => WirePdu::SerialQuery { v, session: gen_u16(t), serial: gen_u32(t) },
            2 => WirePdu::ResetQuery { v },
            3 => WirePdu::CacheResponse { v, session: gen_u16(t) },
            4 => WirePdu::Ipv4 { v, flags: 1, plen: 24, maxlen: 32, addr: 0xC000_0200, asn: 64496 },
            5 => WirePdu::Ipv6 { v, flags: 0, plen: 32, maxlen: 48, addr: 0x2001_0db8u128 << 96, asn: 64497 },
            6 => WirePdu::EndOfData {
                v, session: gen_u16(t), serial: gen_u32(t),
                timing: if v == 0 { None } else { Some((3600, 600, 7200)) },
            },
            7 => WirePdu::CacheReset { v },
            8 => WirePdu::RouterKey { v, flags: 1, ski: [7; 20], asn: 64498, spki: (0..91).collect() },
            9 => WirePdu::Error { v, code: 4, pdu: vec![2, 2, 0, 0, 0, 0, 0, 8], text: b"no".to_vec() },
            _ => WirePdu::Aspa { v, flags: 1, customer: 64499, providers: vec![64500, 64501, 64502] },
        }
    }

    fn run_inner(
        &self,
        kind: RunKind,
        tier: Tier,
        ctx: &Arc<SimCtx>,
        out: &mut RunOut,
        counters: &mut Counters,
    ) -> Result<(), Violation> {
        let seq: Vec<WirePdu> = {
            let mut t = ctx.tape.lock().unwrap();
            match kind {
                RunKind::Sweep(idx) => vec![Self::sweep_pdu(idx, &mut t)],
                RunKind::Random => {
                    let n = if tier == Tier::Thorough {
                        1 + t.weighted(&[4, 3, 2, 2, 1, 1, 1, 1, 1, 1, 1, 1, 1, 1, 1, 1])
                    } else {
                        1 + t.weighted(&[4, 3, 2, 2, 1, 1, 1, 1])
                    };
                    (0..n).map(|_| gen_pdu(&mut t)).collect()
                }
            }
        };
        ctx.ev(1, seq.len() as u64, || {
            format!("sequence: {}", seq.iter().map(wire::describe).collect::<Vec<_>>().join(", "))
        });

        // Fault-free: concurrent writer/reader.
        self.roundtrip(ctx, &seq, counters)?;
        out.evaluations += 1;
        counters.bump("roundtrip_sequences");
        for p in &seq {
            if p.is_payload() {
                self.item_roundtrip(ctx, p)?;
                out.evaluations += 1;
                counters.bump("item_roundtrips");
            }
            accessor_audit(p, false)?;
            out.evaluations += 1;
            counters.bump("accessor_audits");
        }
        {
            let bad = { let mut t = ctx.tape.lock().unwrap(); gen_invalid_origin(&mut t) };
            accessor_audit(&bad, true)?;
            out.evaluations += 1;
            counters.bump("invalid_origin_bodies");
        }
        if ctx.chance(1, 4) {
            // An ASPA PDU with more providers than the library will write, or
            // than fit a u16 count: it can only arrive from the wire. Reading
            // it may succeed or fail, it must not panic, and what was read
            // must be what was sent.
            let big = {
                let mut t = ctx.tape.lock().unwrap();
                let n = *t.pick(&[pdu::ProviderAsns::MAX_COUNT + 1, 65535, 65536, 65537, 70_000]);
                let base = gen_u32(&mut t);
                WirePdu::Aspa { v: 2, flags: t.choose(2) as u8, customer: gen_u32(&mut t), providers: (0..n).map(|i| base.wrapping_add(i as u32 * 3)).collect() }
            };
            accessor_audit(&big, true)?;
            out.evaluations += 1;
            counters.bump("oversized_aspa_bodies");
        }

        // Whole-sequence truncations (sampled): PDUs before the cut decode,
        // the cut one errors.
        let encs: Vec<Vec<u8>> = seq.iter().map(|p| p.encode()).collect();
        let total: Vec<u8> = encs.concat();

        // Per-PDU enumeration. The stream handed to the reader is the faulted
        // PDU followed by the rest of the sequence, so over-reads are visible.
        let mut offset = 0usize;
        for (i, p) in seq.iter().enumerate() {
            let enc = &encs[i];
            let rest = &total[offset + enc.len()..];
            let huge = enc.len() > 4096;
            for (ty, entry) in readers_for(p) {
                // every truncation offset (EOF after k bytes)
                let step = if huge { (enc.len() / 97).max(1) } else { 1 };
                let mut k = 0usize;
                while k < enc.len() {
                    let frag = { let mut t = ctx.tape.lock().unwrap(); Frag::gen(&mut t) };
                    let case = ReadCase { ty, entry, stream: &enc[..k], eof: true, corrupted: false };
                    ctx.ev(2, k as u64, || format!("truncate {:?}/{:?} pdu#{} at {} (EOF) frag={:?}", ty, entry, i, k, frag));
                    check_read(ctx, &case, frag, &format!("truncated at {} of {}", k, enc.len()))?;
                    out.evaluations += 1;
                    out.sub_sigs.push(fnv(&enc[..k]) ^ ((entry as u64) << 56) ^ ((ty as u64) << 48) ^ 1);
                    counters.bump("fault_truncation_eof");
                    // the same prefix without EOF: the reader may wait, it
                    // must not fail or spin
                    if k < 24 || ctx.chance(1, 8) {
                        let case = ReadCase { ty, entry, stream: &enc[..k], eof: false, corrupted: false };
                        check_read(ctx, &case, frag, &format!("stalled at {} of {}", k, enc.len()))?;
                        out.evaluations += 1;
                        out.sub_sigs.push(fnv(&enc[..k]) ^ ((entry as u64) << 56) ^ ((ty as u64) << 48) ^ 2);
                        counters.bump("fault_stall");
                    }
                    k += if k < 40 { 1 } else { step };
                }
                // header corruptions
                for (name, mut c) in corruptions(enc) {
                    let ann = be32(&c[4..8]);
                    if ann > (1 << 24) {
                        if !huge_alloc_granted() {
                            counters.bump("probe_huge_announced_length_skipped_allocation_not_granted_here");
                            continue;
                        }
                        counters.bump("corrupt_length_over_16MiB");
                    }
                    c.extend_from_slice(rest);
                    let frag = { let mut t = ctx.tape.lock().unwrap(); Frag::gen(&mut t) };
                    let case = ReadCase { ty, entry, stream: &c, eof: true, corrupted: true };
                    ctx.ev(3, fnv(name.as_bytes()), || format!("corrupt {:?}/{:?} pdu#{} {} frag={:?}", ty, entry, i, name, frag));
                    check_read(ctx, &case, frag, &name)?;
                    out.evaluations += 1;
                    out.sub_sigs.push(fnv(&c[..c.len().min(64)]) ^ ((entry as u64) << 56) ^ ((ty as u64) << 48) ^ 3);
                    counters.bump(if name.starts_with("flip") {
                        "fault_header_bitflip"
                    } else if name.starts_with("type") {
                        "fault_header_type"
                    } else if name.starts_with("length") {
                        "fault_header_length"
                    } else {
                        "fault_header_version"
                    });
                }
                // intact PDU followed by the rest: must not over-read
                let mut c = enc.clone();
                c.extend_from_slice(rest);
                let frag = { let mut t = ctx.tape.lock().unwrap(); Frag::gen(&mut t) };
                let case = ReadCase { ty, entry, stream: &c, eof: true, corrupted: false };
                check_read(ctx, &case, frag, "intact+rest")?;
                out.evaluations += 1;
            }
            offset += enc.len();
        }
        let _ = Frag::whole();
        // Client level: the same faults against Client::step() reading a whole reply.
        crate::c07c::client_cases(ctx, &seq, counters, out)?;
        Ok(())
    }
}
