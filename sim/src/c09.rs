//! C09 — `rrdp-stream`: RRDP files round-trip and hostile XML is rejected
//! within fixed bounds.
//!
//! Pipeline: library writer -> faulty `io::Write` -> wire (intact, truncated,
//! or taken over by a hostile generator) -> faulty `io::BufRead` -> library
//! parser. Real code: `rrdp::{NotificationFile, Snapshot, Delta}` writers and
//! parsers, `ProcessSnapshot/ProcessDelta::process`, `ObjectReader`,
//! `xml::encode`, `xml::decode` (incl. the private `BufReadCounter`),
//! `util::base64`, quick-xml, base64.

use std::io::Read;
use std::str::FromStr;
use std::sync::Arc;
use bytes::Bytes;
use rpki::rrdp::{
    Delta, DeltaElement, DeltaInfo, Hash, NotificationFile, ObjectReader, ProcessDelta, ProcessError,
    ProcessSnapshot, PublishElement, Snapshot, UpdateElement, UriAndHash, WithdrawElement,
};
use rpki::uri;
use uuid::Uuid;
use crate::common::{fnv, Counters, RunOut, SimCtx, Violation};
use crate::exec::guarded;
use crate::scenario::{RunKind, Scenario, Tier};
use crate::sio::{heap_mark, heap_peak_since, Gen, ReadCfg, Section, SimBufRead, SimWrite, WriteCfg, WriteFault};
use crate::tape::Tape;

pub struct C09;

const MAX_HEADER_SIZE: u64 = 1_000_000;
const MAX_FILE_SIZE: u64 = 100_000_000;

/// Is every element of `part` (with multiplicity) in `whole`?
fn sub_multiset(part: &[u64], whole: &[u64]) -> bool {
    let mut rest: Vec<u64> = whole.to_vec();
    part.iter().all(|x| match rest.iter().position(|y| y == x) {
        Some(i) => {
            rest.swap_remove(i);
            true
        }
        None => false,
    })
}

//------------ Value generation ----------------------------------------------------

/// Characters permitted in URIs besides '/', as per `uri::is_u8_uri_ascii`.
const URI_CHARS: &[u8] = b"!$%&'()*+,-.0123456789:;=ABCDEFGHIJKLMNOPQRSTUVWXYZ_abcdefghijklmnopqrstuvwxyz~";
const HOST_CHARS: &[u8] = b"abcdefghijklmnopqrstuvwxyzABCXYZ0123456789-.";

fn gen_segment(t: &mut Tape, max: usize) -> String {
    loop {
        // now and then a very long segment (URIs of several kilobytes, up to
        // beyond 64 KiB; lengths around the sizes buffers usually have), half of
        // them without any character that needs escaping, so that the value
        // reaches the sink as one long run
        if t.chance(1, 200) {
            let n = *t.pick(&[1500usize, 3000, 4095, 4096, 4097, 5000, 8191, 8192, 9000, 20000, 65536, 70000]) + t.choose(3) as usize;
            let plain = t.chance(1, 2);
            let stem_len = 1 + t.choose(8) as usize;
            let stem: String = (0..stem_len)
                .map(|_| if plain { *t.pick(b"abcXYZ019-_~") as char } else { *t.pick(URI_CHARS) as char })
                .collect();
            let mut s = stem.repeat(n / stem.len() + 1);
            s.truncate(n);
            return s;
        }
        let n = 1 + t.choose(max as u64) as usize;
        let s: String = (0..n).map(|_| *t.pick(URI_CHARS) as char).collect();
        if s != "." && s != ".." {
            return s;
        }
    }
}

fn gen_host(t: &mut Tape) -> String {
    if t.chance(3, 4) {
        return t.pick(&["rrdp.example.net", "Example.ORG", "a", "rpki.example.com:8443"]).to_string();
    }
    loop {
        let n = 1 + t.choose(12) as usize;
        let s: String = (0..n).map(|_| *t.pick(HOST_CHARS) as char).collect();
        // rsync URIs refuse dot segments anywhere, including the authority
        if s != "." && s != ".." {
            return s;
        }
    }
}

fn gen_https(t: &mut Tape, host: &str) -> uri::Https {
    let mut s = format!("https://{}", host);
    let segs = t.choose(4);
    for _ in 0..segs {
        s.push('/');
        s.push_str(&gen_segment(t, 12));
    }
    if t.chance(1, 4) {
        s.push('/');
    }
    match uri::Https::from_string(s.clone()) {
        Ok(u) => u,
        Err(e) => crate::common::harness_fail(format!("generated https uri {} is invalid: {}", s, e)),
    }
}

fn gen_rsync(t: &mut Tape) -> uri::Rsync {
    let mut s = format!("rsync://{}/{}", gen_host(t), gen_segment(t, 8));
    let segs = 1 + t.choose(3);
    for _ in 0..segs {
        s.push('/');
        s.push_str(&gen_segment(t, 12));
    }
    match uri::Rsync::from_string(s.clone()) {
        Ok(u) => u,
        Err(e) => crate::common::harness_fail(format!("generated rsync uri {} is invalid: {}", s, e)),
    }
}

fn gen_hash(t: &mut Tape) -> Hash {
    let mut h = [0u8; 32];
    match t.choose(4) {
        0 => {}
        1 => h = [0xff; 32],
        _ => {
            for b in h.iter_mut() {
                *b = t.choose(256) as u8;
            }
        }
    }
    Hash::from(h)
}

fn gen_uuid(t: &mut Tape) -> Uuid {
    match t.choose(4) {
        0 => Uuid::nil(),
        1 => Uuid::from_bytes([0xff; 16]),
        _ => {
            let mut b = [0u8; 16];
            for x in b.iter_mut() {
                *x = t.choose(256) as u8;
            }
            Uuid::from_bytes(b)
        }
    }
}

fn gen_serial(t: &mut Tape) -> u64 {
    match t.choose(6) {
        0 => 0,
        1 => u64::MAX,
        2 => 1,
        3 => u64::MAX - t.choose(5),
        4 => t.choose(100_000),
        _ => t.bits(64),
    }
}

fn gen_data(t: &mut Tape) -> Bytes {
    if t.chance(1, 1500) {
        // an object larger than the 1 MB *header* limit: the limit in force for
        // publish elements is the 100 MB one, in snapshots and deltas alike
        let n = 800_000 + t.choose(2_500_000) as usize;
        let seed = t.choose(256) as u8;
        return Bytes::from((0..n).map(|i| seed.wrapping_add((i as u8).wrapping_mul(7))).collect::<Vec<u8>>());
    }
    let n = match t.choose(11) {
        10 => {
            // around power-of-two buffer sizes that encoders/decoders like to
            // chunk by, and a few genuinely large objects
            let base = *t.pick(&[1024usize, 3072, 4096, 8192, 12288, 16384, 32768, 65536, 65536, 98304, 131072, 200_000]);
            (base + t.choose(5) as usize).saturating_sub(2)
        }
        0 => 0,
        1 => 1,
        2 => 2,
        3 => 3,
        4 => 766 + t.choose(6) as usize, // around the encoder's 1024-byte output buffer
        5 => 1 + t.choose(4096) as usize,
        _ => t.choose(64) as usize,
    };
    let seed = t.choose(256) as u8;
    let mode = t.choose(3);
    Bytes::from(
        (0..n)
            .map(|i| match mode {
                0 => seed.wrapping_add(i as u8),
                1 => seed,
                _ => (i as u8).wrapping_mul(31) ^ seed,
            })
            .collect::<Vec<u8>>(),
    )
}

/// Delta serial lists: sorted / unsorted / gaps / duplicates / near u64::MAX.
fn gen_delta_serials(t: &mut Tape, serial: u64) -> Vec<u64> {
    let n = match t.choose(8) {
        0 => 0,
        1 => 1,
        2 => 50,
        _ => t.choose(8) as usize,
    };
    let mut v: Vec<u64> = (0..n as u64).map(|i| serial.wrapping_sub(i)).collect();
    match t.choose(6) {
        0 => {}
        1 => v.reverse(),
        2 if n > 1 => {
            let i = t.choose(n as u64) as usize;
            v.remove(i);
        }
        3 if n > 0 => {
            let i = t.choose(n as u64) as usize;
            let d = v[i];
            v.push(d);
        }
        4 if n > 1 => {
            let i = t.choose(n as u64) as usize;
            let j = t.choose(n as u64) as usize;
            v.swap(i, j);
        }
        _ => {
            if n > 0 && t.chance(1, 3) {
                v = (0..n).map(|_| gen_serial(t)).collect();
            }
        }
    }
    v
}

fn gen_notification(t: &mut Tape) -> NotificationFile {
    let host = gen_host(t);
    let serial = gen_serial(t);
    let snapshot = UriAndHash::new(gen_https(t, &host), gen_hash(t));
    let other_host = t.chance(1, 4);
    let serials = gen_delta_serials(t, serial);
    let recase = t.chance(1, 4);
    let deltas = serials
        .into_iter()
        .map(|s| {
            let mut h = if other_host && t.chance(1, 3) { gen_host(t) } else { host.clone() };
            if recase && t.chance(1, 2) {
                // same authority, different letter case
                h = h.chars().map(|c| if t.chance(1, 2) { c.to_ascii_uppercase() } else { c.to_ascii_lowercase() }).collect();
            }
            DeltaInfo::new(s, gen_https(t, &h), gen_hash(t))
        })
        .collect();
    NotificationFile::new(gen_uuid(t), serial, snapshot, deltas)
}

fn gen_snapshot(t: &mut Tape, with_data: bool) -> Snapshot {
    let n = match t.choose(8) { 0 => 0, 1 => 50, _ => t.choose(6) as usize };
    let elements = (0..n)
        .map(|_| PublishElement::new(gen_rsync(t), if with_data { gen_data(t) } else { Bytes::new() }))
        .collect();
    Snapshot::new(gen_uuid(t), gen_serial(t), elements)
}

fn gen_delta(t: &mut Tape, with_data: bool) -> Delta {
    let n = match t.choose(8) { 0 => 0, 1 => 50, _ => t.choose(6) as usize };
    let elements = (0..n)
        .map(|_| {
            let data = if with_data { gen_data(t) } else { Bytes::new() };
            match t.choose(3) {
                0 => DeltaElement::Publish(PublishElement::new(gen_rsync(t), data)),
                1 => DeltaElement::Update(UpdateElement::new(gen_rsync(t), gen_hash(t), data)),
                _ => DeltaElement::Withdraw(WithdrawElement::new(gen_rsync(t), gen_hash(t))),
            }
        })
        .collect();
    Delta::new(gen_uuid(t), gen_serial(t), elements)
}

trait PairExt {
    fn uri_and_hash_pair(self) -> (uri::Https, Hash);
}
impl PairExt for DeltaInfo {
    fn uri_and_hash_pair(self) -> (uri::Https, Hash) {
        let uh: &UriAndHash = &self;
        uh.clone().into_pair()
    }
}

#[derive(Clone, Debug, PartialEq, Eq)]
enum Doc {
    Notification(NotificationFile),
    Snapshot(Snapshot),
    Delta(Delta),
}

impl Doc {
    fn kind(&self) -> &'static str {
        match self {
            Doc::Notification(_) => "notification",
            Doc::Snapshot(_) => "snapshot",
            Doc::Delta(_) => "delta",
        }
    }
    fn write(&self, w: &mut SimWrite) -> std::io::Result<()> {
        match self {
            Doc::Notification(x) => x.write_xml(w),
            Doc::Snapshot(x) => x.write_xml(w),
            Doc::Delta(x) => x.write_xml(w),
        }
    }
    fn has_object_data(&self) -> bool {
        match self {
            Doc::Notification(_) => false,
            Doc::Snapshot(s) => s.elements().iter().any(|e| !e.data().is_empty()),
            Doc::Delta(d) => d.elements().iter().any(|e| match e {
                DeltaElement::Publish(p) => !p.data().is_empty(),
                DeltaElement::Update(u) => !u.data().is_empty(),
                DeltaElement::Withdraw(_) => false,
            }),
        }
    }
    /// Parses a document of the same kind from `r`. Err carries a short text.
    fn parse_same(&self, r: &mut SimBufRead) -> Result<Doc, String> {
        match self {
            Doc::Notification(_) => NotificationFile::parse(r).map(Doc::Notification).map_err(|e| e.to_string()),
            Doc::Snapshot(_) => Snapshot::parse(r).map(Doc::Snapshot).map_err(|e| e.to_string()),
            Doc::Delta(_) => Delta::parse(r).map(Doc::Delta).map_err(|e| e.to_string()),
        }
    }
    /// Equality as the statement means it: the library's `Eq` compares URI
    /// scheme and authority case-insensitively, so URIs are compared as text
    /// in addition.
    fn same_as(&self, other: &Doc) -> bool {
        if self != other {
            return false;
        }
        match (self, other) {
            (Doc::Notification(a), Doc::Notification(b)) => {
                a.snapshot().uri().as_str() == b.snapshot().uri().as_str()
                    && a.deltas().len() == b.deltas().len()
                    && a.deltas().iter().zip(b.deltas()).all(|(x, y)| x.uri().as_str() == y.uri().as_str())
            }
            (Doc::Snapshot(a), Doc::Snapshot(b)) => {
                a.elements().iter().zip(b.elements()).all(|(x, y)| x.uri().as_str() == y.uri().as_str())
            }
            (Doc::Delta(a), Doc::Delta(b)) => a.elements().iter().zip(b.elements()).all(|(x, y)| {
                let u = |e: &DeltaElement| match e {
                    DeltaElement::Publish(p) => p.uri().as_str().to_string(),
                    DeltaElement::Update(p) => p.uri().as_str().to_string(),
                    DeltaElement::Withdraw(p) => p.uri().as_str().to_string(),
                };
                u(x) == u(y)
            }),
            _ => false,
        }
    }
    /// Every public accessor of the parsed value against the original (the
    /// derived `Eq` looks at fields, callers look through accessors).
    fn accessors_agree(&self, other: &Doc) -> Result<(), String> {
        macro_rules! same {
            ($what:expr, $a:expr, $b:expr) => {{
                let a = $a;
                let b = $b;
                if a != b {
                    return Err(format!("{}: {:?} vs {:?}", $what, a, b));
                }
            }};
        }
        match (self, other) {
            (Doc::Notification(a), Doc::Notification(b)) => {
                same!("session_id", a.session_id(), b.session_id());
                same!("serial", a.serial(), b.serial());
                same!("snapshot.uri", a.snapshot().uri().as_str(), b.snapshot().uri().as_str());
                same!("snapshot.hash", a.snapshot().hash().as_slice().to_vec(), b.snapshot().hash().as_slice().to_vec());
                same!("snapshot.hash text", a.snapshot().hash().to_string(), b.snapshot().hash().to_string());
                same!("delta_status", a.delta_status().is_ok(), b.delta_status().is_ok());
                same!("deltas.len", a.deltas().len(), b.deltas().len());
                for (x, y) in a.deltas().iter().zip(b.deltas()) {
                    same!("delta.serial", x.serial(), y.serial());
                    same!("delta.uri", x.uri().as_str(), y.uri().as_str());
                    same!("delta.hash", x.hash().as_slice().to_vec(), y.hash().as_slice().to_vec());
                    let (u1, h1) = x.clone().uri_and_hash_pair();
                    let (u2, h2) = y.clone().uri_and_hash_pair();
                    same!("delta.into_pair", (u1.as_str().to_string(), h1.to_string()), (u2.as_str().to_string(), h2.to_string()));
                }
            }
            (Doc::Snapshot(a), Doc::Snapshot(b)) => {
                same!("session_id", a.session_id(), b.session_id());
                same!("serial", a.serial(), b.serial());
                same!("elements.len", a.elements().len(), b.elements().len());
                for (x, y) in a.elements().iter().zip(b.elements()) {
                    same!("publish.uri", x.uri().as_str(), y.uri().as_str());
                    same!("publish.data", x.data(), y.data());
                    let (u1, d1) = x.clone().unpack();
                    let (u2, d2) = y.clone().unpack();
                    same!("publish.unpack", (u1.as_str().to_string(), d1), (u2.as_str().to_string(), d2));
                }
                same!("into_elements", a.clone().into_elements().len(), b.clone().into_elements().len());
            }
            (Doc::Delta(a), Doc::Delta(b)) => {
                same!("session_id", a.session_id(), b.session_id());
                same!("serial", a.serial(), b.serial());
                same!("elements.len", a.elements().len(), b.elements().len());
                for (x, y) in a.elements().iter().zip(b.elements()) {
                    match (x, y) {
                        (DeltaElement::Publish(x), DeltaElement::Publish(y)) => {
                            same!("publish.uri", x.uri().as_str(), y.uri().as_str());
                            same!("publish.data", x.data(), y.data());
                        }
                        (DeltaElement::Update(x), DeltaElement::Update(y)) => {
                            same!("update.uri", x.uri().as_str(), y.uri().as_str());
                            same!("update.hash", x.hash().as_slice().to_vec(), y.hash().as_slice().to_vec());
                            same!("update.data", x.data(), y.data());
                            let (u1, h1, d1) = x.clone().unpack();
                            let (u2, h2, d2) = y.clone().unpack();
                            same!("update.unpack", (u1.as_str().to_string(), h1.to_string(), d1), (u2.as_str().to_string(), h2.to_string(), d2));
                        }
                        (DeltaElement::Withdraw(x), DeltaElement::Withdraw(y)) => {
                            same!("withdraw.uri", x.uri().as_str(), y.uri().as_str());
                            same!("withdraw.hash", x.hash().as_slice().to_vec(), y.hash().as_slice().to_vec());
                            let (u1, h1) = x.clone().unpack();
                            let (u2, h2) = y.clone().unpack();
                            same!("withdraw.unpack", (u1.as_str().to_string(), h1.to_string()), (u2.as_str().to_string(), h2.to_string()));
                        }
                        _ => return Err("element kind differs".into()),
                    }
                }
                same!("into_elements", a.clone().into_elements().len(), b.clone().into_elements().len());
            }
            _ => return Err("document kind differs".into()),
        }
        Ok(())
    }
    fn summary(&self) -> String {
        match self {
            Doc::Notification(n) => format!("notification(serial {}, {} deltas)", n.serial(), n.deltas().len()),
            Doc::Snapshot(s) => format!(
                "snapshot(serial {}, {} elements, data lens {:?})",
                s.serial(), s.elements().len(),
                s.elements().iter().take(8).map(|e| e.data().len()).collect::<Vec<_>>()
            ),
            Doc::Delta(d) => format!("delta(serial {}, {} elements)", d.serial(), d.elements().len()),
        }
    }
}

fn gen_doc(t: &mut Tape, with_data: bool) -> Doc {
    match t.choose(3) {
        0 => Doc::Notification(gen_notification(t)),
        1 => Doc::Snapshot(gen_snapshot(t, with_data)),
        _ => Doc::Delta(gen_delta(t, with_data)),
    }
}

//------------ Recording processors -------------------------------------------------

#[derive(Debug, PartialEq, Eq)]
enum Rec {
    Meta(Uuid, u64),
    Publish(String, Option<Hash>, Vec<u8>),
    Withdraw(String, Hash),
}

struct Recorder {
    ctx: Arc<SimCtx>,
    recs: Vec<Rec>,
    /// Read object data with `read_to_end` only (for the very large cells: a
    /// tape entry per tiny read would make the tape as long as the object).
    bulk: bool,
}

/// A processor that is not interested in (all of) the object data: it reads
/// none or only a prefix of each object. Everything else it is told - and the
/// success of the whole parse - must not depend on that.
struct LazyRecorder {
    ctx: Arc<SimCtx>,
    recs: Vec<Rec>,
}

impl LazyRecorder {
    fn nibble(&self, data: &mut ObjectReader) -> Result<Vec<u8>, ProcessError> {
        let want = match self.ctx.choose(3) { 0 => 0usize, 1 => 1, _ => 1 + self.ctx.choose(64) as usize };
        let mut buf = vec![0u8; want];
        let mut got = 0;
        while got < want {
            let n = data.read(&mut buf[got..])?;
            if n == 0 {
                break;
            }
            got += n;
        }
        buf.truncate(got);
        Ok(buf)
    }
}

impl ProcessSnapshot for LazyRecorder {
    type Err = ProcessError;
    fn meta(&mut self, session_id: Uuid, serial: u64) -> Result<(), Self::Err> {
        self.recs.push(Rec::Meta(session_id, serial));
        Ok(())
    }
    fn publish(&mut self, uri: uri::Rsync, data: &mut ObjectReader) -> Result<(), Self::Err> {
        let d = self.nibble(data)?;
        self.recs.push(Rec::Publish(uri.to_string(), None, d));
        Ok(())
    }
}

impl ProcessDelta for LazyRecorder {
    type Err = ProcessError;
    fn meta(&mut self, session_id: Uuid, serial: u64) -> Result<(), Self::Err> {
        self.recs.push(Rec::Meta(session_id, serial));
        Ok(())
    }
    fn publish(&mut self, uri: uri::Rsync, hash: Option<Hash>, data: &mut ObjectReader) -> Result<(), Self::Err> {
        let d = self.nibble(data)?;
        self.recs.push(Rec::Publish(uri.to_string(), hash, d));
        Ok(())
    }
    fn withdraw(&mut self, uri: uri::Rsync, hash: Hash) -> Result<(), Self::Err> {
        self.recs.push(Rec::Withdraw(uri.to_string(), hash));
        Ok(())
    }
}

impl Recorder {
    /// Reads object data in tape-chosen read sizes.
    fn slurp(&self, data: &mut ObjectReader) -> Result<Vec<u8>, ProcessError> {
        let mut out = Vec::new();
        if self.bulk || self.ctx.chance(1, 2) {
            data.read_to_end(&mut out)?;
            return Ok(out);
        }
        let max = *[1usize, 2, 3, 4, 5, 7, 64, 1000].get(self.ctx.choose(8) as usize).unwrap();
        let mut buf = vec![0u8; max];
        loop {
            let want = 1 + self.ctx.choose(max as u64) as usize;
            let n = data.read(&mut buf[..want])?;
            if n == 0 {
                return Ok(out);
            }
            out.extend_from_slice(&buf[..n]);
        }
    }
}

impl ProcessSnapshot for Recorder {
    type Err = ProcessError;
    fn meta(&mut self, session_id: Uuid, serial: u64) -> Result<(), Self::Err> {
        self.recs.push(Rec::Meta(session_id, serial));
        Ok(())
    }
    fn publish(&mut self, uri: uri::Rsync, data: &mut ObjectReader) -> Result<(), Self::Err> {
        let d = self.slurp(data)?;
        self.recs.push(Rec::Publish(uri.to_string(), None, d));
        Ok(())
    }
}

impl ProcessDelta for Recorder {
    type Err = ProcessError;
    fn meta(&mut self, session_id: Uuid, serial: u64) -> Result<(), Self::Err> {
        self.recs.push(Rec::Meta(session_id, serial));
        Ok(())
    }
    fn publish(&mut self, uri: uri::Rsync, hash: Option<Hash>, data: &mut ObjectReader) -> Result<(), Self::Err> {
        let d = self.slurp(data)?;
        self.recs.push(Rec::Publish(uri.to_string(), hash, d));
        Ok(())
    }
    fn withdraw(&mut self, uri: uri::Rsync, hash: Hash) -> Result<(), Self::Err> {
        self.recs.push(Rec::Withdraw(uri.to_string(), hash));
        Ok(())
    }
}

fn expected_recs(doc: &Doc) -> Vec<Rec> {
    match doc {
        Doc::Notification(_) => Vec::new(),
        Doc::Snapshot(s) => {
            let mut v = vec![Rec::Meta(s.session_id(), s.serial())];
            for e in s.elements() {
                v.push(Rec::Publish(e.uri().to_string(), None, e.data().to_vec()));
            }
            v
        }
        Doc::Delta(d) => {
            let mut v = vec![Rec::Meta(d.session_id(), d.serial())];
            for e in d.elements() {
                v.push(match e {
                    DeltaElement::Publish(p) => Rec::Publish(p.uri().to_string(), None, p.data().to_vec()),
                    DeltaElement::Update(u) => Rec::Publish(u.uri().to_string(), Some(*u.hash()), u.data().to_vec()),
                    DeltaElement::Withdraw(w) => Rec::Withdraw(w.uri().to_string(), *w.hash()),
                });
            }
            v
        }
    }
}

//------------ Helpers ---------------------------------------------------------------

fn gen_read_cfg(t: &mut Tape, benign_only: bool) -> ReadCfg {
    let _ = benign_only;
    ReadCfg {
        mode: t.choose(3) as u8,
        // (1 << 30: the whole document in one chunk, as a `&[u8]` or a Cursor hands it out)
        chunk_max: *t.pick(&[65536usize, 1, 2, 3, 7, 64, 1000, 8192, 1 << 30]),
        eintr: if t.chance(1, 3) { *t.pick(&[2u64, 5, 20]) } else { 0 },
        fail_at: None,
        bound: None,
    }
}

fn plain_read_cfg() -> ReadCfg {
    ReadCfg { mode: 0, chunk_max: 65536, eintr: 0, fail_at: None, bound: None }
}

fn reader(ctx: &Arc<SimCtx>, bytes: &Arc<Vec<u8>>, cfg: ReadCfg) -> SimBufRead {
    ctx.reset_polls();
    SimBufRead::new(ctx, Gen::Finite { data: bytes.clone(), pos: 0 }, cfg)
}

fn tail(bytes: &[u8]) -> String {
    let start = bytes.len().saturating_sub(120);
    String::from_utf8_lossy(&bytes[start..]).replace('\n', "\\n")
}

//------------ Classes ---------------------------------------------------------------

impl C09 {
    /// Class A: honest peer, benign stream behaviours. Returns the document
    /// bytes for use by the other classes.
    fn class_a(
        &self,
        ctx: &Arc<SimCtx>,
        doc: &Doc,
        counters: &mut Counters,
        out: &mut RunOut,
    ) -> Result<Arc<Vec<u8>>, Violation> {
        let wcfg = {
            let mut t = ctx.tape.lock().unwrap();
            WriteCfg {
                // short writes only where no base64 object data is written:
                // EncoderWriter legitimately returns Ok(0) while draining its
                // buffer, which std's write_all reports as WriteZero
                short_writes: !doc.has_object_data() && t.chance(1, 3),
                eintr: if t.chance(1, 3) { *t.pick(&[2u64, 5, 20]) } else { 0 },
                fault: WriteFault::None,
                fault_kind: std::io::ErrorKind::Other,
            }
        };
        let mut w = SimWrite::new(ctx, wcfg);
        let res = guarded("write_xml", || Ok(doc.write(&mut w)))?;
        counters.add("fault_eintr_on_write", w.eintr_fired);
        counters.add("fault_short_write", w.short_fired);
        if res.is_ok() && w.failed_calls.is_empty() && (w.eintr_fired > 0 || w.short_fired > 0) {
            counters.bump("probe_written_despite_eintr_or_short_writes");
        }
        ctx.ev(10, w.accepted.len() as u64, || {
            format!("A: wrote {} -> {:?}, {} bytes in {} write calls (cfg {:?})", doc.summary(), res.as_ref().map_err(|e| e.to_string()), w.accepted.len(), w.calls, wcfg)
        });
        let bytes = match res {
            Ok(()) => Arc::new(w.accepted),
            Err(e) => {
                // With EINTR or short writes in play a failing write_xml means
                // "no file was written", which the statement does not forbid
                // (it is counted). On a sink that accepts everything it must
                // succeed: otherwise this value has no file at all.
                counters.bump("probe_write_failed_under_eintr_or_short_writes");
                ctx.ev(12, 0, || format!("A: write_xml failed under benign faults: {}", e));
                let mut clean = SimWrite::new(ctx, WriteCfg { short_writes: false, eintr: 0, fault: WriteFault::None, fault_kind: std::io::ErrorKind::Other });
                let res = guarded("write_xml", || Ok(doc.write(&mut clean)))?;
                if let Err(e) = res {
                    return Err(Violation::new(
                        "write-failed",
                        doc.kind(),
                        format!("write_xml fails on a sink that accepts every write: {}", e),
                    ));
                }
                Arc::new(clean.accepted)
            }
        };

        // parse back under benign read behaviours
        let rcfg = { let mut t = ctx.tape.lock().unwrap(); gen_read_cfg(&mut t, true) };
        let mut r = reader(ctx, &bytes, rcfg);
        let parsed = guarded("parse", || Ok(doc.parse_same(&mut r)))?;
        counters.add("fault_eintr_on_read", r.eintr_fired);
        if rcfg.chunk_max == 1 || rcfg.mode == 1 {
            counters.bump("fault_one_byte_reads");
        } else if rcfg.mode == 2 {
            counters.bump("fault_short_reads");
        }
        ctx.ev(11, rcfg.chunk_max as u64, || format!("A: parsed back with {:?} -> {}", rcfg, parsed.as_ref().map(|_| "Ok".to_string()).unwrap_or_else(|e| format!("Err({})", e))));
        match parsed {
            Ok(ref p) if p.same_as(doc) => {}
            Ok(p) => {
                return Err(Violation::new(
                    "roundtrip-mismatch",
                    doc.kind(),
                    format!("{} written by the library parses back as a different value: {} (read cfg {:?}); document tail: {}", doc.summary(), p.summary(), rcfg, tail(&bytes)),
                ));
            }
            Err(e) => {
                return Err(Violation::new(
                    "roundtrip-rejected",
                    doc.kind(),
                    format!("{} written by the library is rejected by its parser: {} (read cfg {:?}); document tail: {}", doc.summary(), e, rcfg, tail(&bytes)),
                ));
            }
        }
        if let Ok(p) = &parsed {
            let res = guarded("accessors", || Ok(p.accessors_agree(doc)))?;
            if let Err(what) = res {
                return Err(Violation::new(
                    "roundtrip-mismatch",
                    "accessor",
                    format!("{} parses back equal but an accessor disagrees: {}", doc.summary(), what),
                ));
            }
        }
        out.evaluations += 1;
        out.sub_sigs.push(fnv(&bytes) ^ rcfg.chunk_max as u64);

        // streaming processors deliver the same element sequence
        if !matches!(doc, Doc::Notification(_)) {
            let rcfg = { let mut t = ctx.tape.lock().unwrap(); gen_read_cfg(&mut t, true) };
            let mut r = reader(ctx, &bytes, rcfg);
            let mut rec = Recorder { ctx: ctx.clone(), recs: Vec::new(), bulk: false };
            let res = guarded("process", || {
                Ok(match doc {
                    Doc::Snapshot(_) => ProcessSnapshot::process(&mut rec, &mut r).map_err(|e| e.to_string()),
                    _ => ProcessDelta::process(&mut rec, &mut r).map_err(|e| e.to_string()),
                })
            })?;
            if let Err(e) = res {
                return Err(Violation::new("roundtrip-rejected", "process", format!("streaming processor rejects a library-written {}: {}", doc.kind(), e)));
            }
            if rec.recs != expected_recs(doc) {
                return Err(Violation::new(
                    "roundtrip-mismatch",
                    "process",
                    format!("streaming processor delivered a different element sequence for {}", doc.summary()),
                ));
            }
            out.evaluations += 1;
            counters.bump("streaming_process_checked");

            // the same with a processor that reads little or nothing of the data
            let mut r = reader(ctx, &bytes, rcfg);
            let mut lazy = LazyRecorder { ctx: ctx.clone(), recs: Vec::new() };
            let res = guarded("process-lazy", || {
                Ok(match doc {
                    Doc::Snapshot(_) => ProcessSnapshot::process(&mut lazy, &mut r).map_err(|e| e.to_string()),
                    _ => ProcessDelta::process(&mut lazy, &mut r).map_err(|e| e.to_string()),
                })
            })?;
            if let Err(e) = res {
                return Err(Violation::new("roundtrip-rejected", "process-lazy", format!("a processor that does not read all object data makes the parse of a library-written {} fail: {}", doc.kind(), e)));
            }
            let want = expected_recs(doc);
            let same = lazy.recs.len() == want.len() && lazy.recs.iter().zip(want.iter()).all(|(g, w)| match (g, w) {
                (Rec::Publish(u1, h1, d1), Rec::Publish(u2, h2, d2)) => u1 == u2 && h1 == h2 && d2.starts_with(d1),
                (a, b) => a == b,
            });
            if !same {
                return Err(Violation::new(
                    "roundtrip-mismatch",
                    "process-lazy",
                    format!("a processor that reads only a prefix of each object was told a different element sequence for {}", doc.summary()),
                ));
            }
            out.evaluations += 1;
            counters.bump("streaming_process_lazy_checked");
        }

        // the notification's pure predicates and parse_limited ride along
        if let Doc::Notification(n) = doc {
            self.notification_extras(ctx, n, &bytes, counters)?;
            out.evaluations += 1;
        }
        Ok(bytes)
    }

    fn notification_extras(
        &self,
        ctx: &Arc<SimCtx>,
        n: &NotificationFile,
        bytes: &Arc<Vec<u8>>,
        counters: &mut Counters,
    ) -> Result<(), Violation> {
        // parse_limited
        // mostly around the list's length; sometimes "no limit" spelled as a
        // huge number
        let limit = match ctx.choose(8) {
            0 => usize::MAX,
            1 => usize::MAX / 2,
            _ => ctx.choose(n.deltas().len() as u64 + 3) as usize,
        };
        let mut r = reader(ctx, bytes, plain_read_cfg());
        let limited = guarded("parse_limited", || Ok(NotificationFile::parse_limited(&mut r, limit)))?;
        match limited {
            Err(e) => {
                return Err(Violation::new("roundtrip-rejected", "parse_limited", format!("parse_limited({}) rejects a library-written file: {}", limit, e)));
            }
            Ok(l) => {
                let over = n.deltas().len() > limit;
                let ok = if over {
                    l.delta_status().is_err() && l.deltas().is_empty() && l.session_id() == n.session_id() && l.serial() == n.serial() && l.snapshot() == n.snapshot()
                } else {
                    l == *n
                };
                if !ok {
                    return Err(Violation::new(
                        "parse-limited-mismatch",
                        "",
                        format!("parse_limited({}) on a file with {} deltas: status {:?}, {} deltas returned", limit, n.deltas().len(), l.delta_status(), l.deltas().len()),
                    ));
                }
                if over {
                    counters.bump("probe_delta_list_oversized");
                    // The predicates on a file whose delta list was discarded:
                    // the only URI it still references is the snapshot's.
                    let slice_auth = |u: &uri::Https| {
                        let text = u.as_str();
                        text["https://".len()..].split('/').next().unwrap_or("").to_ascii_lowercase()
                    };
                    for base in [
                        n.snapshot().uri().clone(),
                        uri::Https::from_str("https://rrdp.example.net/notification.xml").unwrap(),
                        uri::Https::from_str("https://other.example.org/n.xml").unwrap(),
                    ] {
                        let want = slice_auth(l.snapshot().uri()) == slice_auth(&base);
                        let got = guarded("has_matching_origins", || Ok(l.has_matching_origins(&base)))?;
                        if got != want {
                            return Err(Violation::new(
                                "origin-check",
                                "oversized-delta-list",
                                format!(
                                    "has_matching_origins({}) on a file parsed with a discarded (oversized) delta list and snapshot {} returned {} but by definition it is {}",
                                    base, l.snapshot().uri(), got, want
                                ),
                            ));
                        }
                    }
                    let mut l2 = l.clone();
                    let got = guarded("sort_and_verify_deltas", || Ok(l2.sort_and_verify_deltas(None)))?;
                    if !got {
                        return Err(Violation::new(
                            "delta-chain-check",
                            "oversized-delta-list",
                            "sort_and_verify_deltas on a file without retained deltas reported a gap".to_string(),
                        ));
                    }
                }
            }
        }
        // sort_and_verify_deltas(limit) <=> retained serials consecutive
        let lim = if ctx.chance(1, 2) { None } else { Some(ctx.choose(n.deltas().len() as u64 + 2) as usize) };
        let mut serials: Vec<u64> = n.deltas().iter().map(|d| d.serial()).collect();
        serials.sort();
        if let Some(l) = lim {
            if l < serials.len() {
                serials.drain(..serials.len() - l);
            }
        }
        let want = serials.windows(2).all(|w| w[0].checked_add(1) == Some(w[1]));
        let mut copy = n.clone();
        let got = guarded("sort_and_verify_deltas", || Ok(copy.sort_and_verify_deltas(lim)))?;
        let mut retained: Vec<u64> = copy.deltas().iter().map(|d| d.serial()).collect();
        retained.sort();
        // (on success the retained deltas are the newest `limit`; what the list
        // holds after a reported gap is not specified beyond "nothing invented")
        let all_serials: Vec<u64> = n.deltas().iter().map(|d| d.serial()).collect();
        if got != want || (got && n.deltas().len() > 0 && retained != serials) || (!got && !sub_multiset(&retained, &all_serials)) {
            return Err(Violation::new(
                "delta-chain-check",
                "",
                format!(
                    "sort_and_verify_deltas({:?}) on serials {:?}: returned {}, retained {:?}; consecutive-by-definition: {} over {:?}",
                    lim, n.deltas().iter().map(|d| d.serial()).collect::<Vec<_>>(), got, retained, want, serials
                ),
            ));
        }
        // the same check on small serial multisets drawn from a narrow window
        // (duplicates, gaps and their combinations are likely there)
        for _ in 0..8 {
            let (list, lim) = {
                let mut t = ctx.tape.lock().unwrap();
                let base = match t.choose(3) { 0 => 0u64, 1 => u64::MAX - 6, _ => t.choose(1_000_000) };
                let len = t.choose(7) as usize;
                let list: Vec<u64> = (0..len).map(|_| base + t.choose(7)).collect();
                let lim = if t.chance(1, 2) { None } else { Some(t.choose(len as u64 + 2) as usize) };
                (list, lim)
            };
            let hash = n.snapshot().hash();
            let uri = n.snapshot().uri().clone();
            let mut nf = NotificationFile::new(
                n.session_id(), n.serial(), UriAndHash::new(uri.clone(), hash),
                list.iter().map(|s| DeltaInfo::new(*s, uri.clone(), hash)).collect(),
            );
            let mut sorted = list.clone();
            sorted.sort();
            if let Some(l) = lim {
                if l < sorted.len() {
                    sorted.drain(..sorted.len() - l);
                }
            }
            let want = sorted.windows(2).all(|w| w[0].checked_add(1) == Some(w[1]));
            let got = guarded("sort_and_verify_deltas", || Ok(nf.sort_and_verify_deltas(lim)))?;
            // (which deltas are retained matters, their order does not)
            let mut retained: Vec<u64> = nf.deltas().iter().map(|d| d.serial()).collect();
            retained.sort();
            if got != want || (got && !list.is_empty() && retained != sorted) || (!got && !sub_multiset(&retained, &list)) {
                return Err(Violation::new(
                    "delta-chain-check",
                    "",
                    format!(
                        "sort_and_verify_deltas({:?}) on serials {:?}: returned {}, retained {:?}; consecutive-by-definition: {} over {:?}",
                        lim, list, got, retained, want, sorted
                    ),
                ));
            }
        }
        // has_matching_origins <=> all authorities equal the base's
        let base = match ctx.choose(4) {
            0 => n.snapshot().uri().clone(),
            3 => {
                // the snapshot's authority with a port added, changed or taken
                // away (never 443: whether "host" and "host:443" are the same
                // authority is a matter of reading, RFC 6454 says same origin)
                let text = n.snapshot().uri().as_str();
                let rest = &text["https://".len()..];
                let host = rest.split('/').next().unwrap_or("");
                let other = match host.rsplit_once(':') {
                    Some((h, port)) if port.chars().all(|c| c.is_ascii_digit()) && !port.is_empty() => {
                        if ctx.chance(1, 2) { h.to_string() } else { format!("{}:{}", h, if port == "8444" { "8445" } else { "8444" }) }
                    }
                    _ => format!("{}:{}", host, [8443u32, 80, 1, 4430, 65535][ctx.choose(5) as usize]),
                };
                uri::Https::from_string(format!("https://{}/notification.xml", other)).unwrap_or_else(|_| n.snapshot().uri().clone())
            }
            1 => {
                // the snapshot's authority in another letter case
                let text = n.snapshot().uri().as_str();
                let rest = &text["https://".len()..];
                let host = rest.split('/').next().unwrap_or("");
                let flipped: String = host.chars().map(|c| if c.is_ascii_lowercase() { c.to_ascii_uppercase() } else { c.to_ascii_lowercase() }).collect();
                uri::Https::from_string(format!("https://{}/notification.xml", flipped)).unwrap_or_else(|_| n.snapshot().uri().clone())
            }
            _ => uri::Https::from_str("https://rrdp.example.net/notification.xml").unwrap(),
        };
        // authority by slicing the text (not through the library's accessor)
        let auth = |u: &uri::Https| {
            let text = u.as_str();
            let rest = &text["https://".len()..];
            rest.split('/').next().unwrap_or("").to_ascii_lowercase()
        };
        let want = auth(n.snapshot().uri()) == auth(&base) && n.deltas().iter().all(|d| auth(d.uri()) == auth(&base));
        let got = guarded("has_matching_origins", || Ok(n.has_matching_origins(&base)))?;
        if got != want {
            return Err(Violation::new(
                "origin-check",
                "",
                format!("has_matching_origins({}) returned {} but by definition it is {}", base, got, want),
            ));
        }
        counters.bump("predicates_checked");
        Ok(())
    }

    /// Class B: truncation and hard read errors at offset k.
    fn class_b(
        &self,
        ctx: &Arc<SimCtx>,
        doc: &Doc,
        bytes: &Arc<Vec<u8>>,
        counters: &mut Counters,
        out: &mut RunOut,
    ) -> Result<(), Violation> {
        let len = bytes.len();
        // enumerate every offset of small documents, sample large ones
        let offsets: Vec<usize> = if len <= 1500 {
            (0..len).collect()
        } else if len <= 20_000 {
            (0..300).map(|_| ctx.choose(len as u64) as usize).collect()
        } else {
            (0..40).map(|_| ctx.choose(len as u64) as usize).collect()
        };
        for k in offsets {
            let hard = ctx.chance(1, 3);
            let mut rcfg = { let mut t = ctx.tape.lock().unwrap(); gen_read_cfg(&mut t, false) };
            if len > 20_000 {
                // keep the cost of re-parsing large documents bounded
                rcfg.chunk_max = rcfg.chunk_max.max(4096);
                if rcfg.mode == 1 {
                    rcfg.mode = 2;
                }
            }
            let data = if hard {
                rcfg.fail_at = Some(k as u64);
                bytes.clone()
            } else {
                Arc::new(bytes[..k].to_vec())
            };
            let mut r = reader(ctx, &data, rcfg);
            let res = guarded("parse-truncated", || Ok(doc.parse_same(&mut r)))?;
            out.evaluations += 1;
            out.sub_sigs.push(fnv(&bytes[..k]) ^ (hard as u64) << 63);
            counters.bump(if hard { "fault_hard_read_error" } else { "fault_truncation" });
            match res {
                Err(_) => {}
                Ok(p) if p == *doc => {
                    counters.bump("probe_truncated_but_complete");
                }
                Ok(p) => {
                    return Err(Violation::new(
                        "truncated-accepted",
                        doc.kind(),
                        format!(
                            "{} cut at byte {} of {} ({}) was accepted as a different value: {}",
                            doc.summary(), k, len, if hard { "read error" } else { "EOF" }, p.summary()
                        ),
                    ));
                }
            }
        }
        Ok(())
    }

    /// Class C: faulty sink. Acknowledged-write durability.
    fn class_c(
        &self,
        ctx: &Arc<SimCtx>,
        doc: &Doc,
        clean_calls: u64,
        counters: &mut Counters,
        out: &mut RunOut,
    ) -> Result<(), Violation> {
        // enumerate the failing call index over all write calls of small
        // documents; sample for large ones
        let idxs: Vec<u64> = if clean_calls <= 400 {
            (0..clean_calls).collect()
        } else {
            (0..200).map(|_| ctx.choose(clean_calls)).collect()
        };
        for idx in idxs {
            let sticky = ctx.chance(1, 3);
            let kind = *[std::io::ErrorKind::Other, std::io::ErrorKind::WouldBlock, std::io::ErrorKind::StorageFull]
                .get(ctx.choose(3) as usize)
                .unwrap();
            let wcfg = WriteCfg {
                short_writes: false,
                eintr: 0,
                fault: if sticky { WriteFault::Sticky(idx) } else { WriteFault::Transient(idx) },
                fault_kind: kind,
            };
            let mut w = SimWrite::new(ctx, wcfg);
            let res = guarded("write_xml-faulty-sink", || Ok(doc.write(&mut w)))?;
            out.evaluations += 1;
            out.sub_sigs.push(fnv(&w.accepted) ^ idx.rotate_left(40) ^ sticky as u64);
            counters.bump(if sticky { "fault_sticky_write_error" } else { "fault_transient_write_error" });
            if w.failed_calls.is_empty() {
                continue; // fault index beyond the calls actually made
            }
            match res {
                Err(_) => {}
                Ok(()) => {
                    counters.bump("probe_write_error_swallowed");
                    // The library acknowledged the write although a call
                    // failed. That is only acceptable if the sink nevertheless
                    // holds the complete document.
                    let accepted = Arc::new(std::mem::take(&mut w.accepted));
                    let mut r = reader(ctx, &accepted, plain_read_cfg());
                    let back = guarded("parse-acknowledged", || Ok(doc.parse_same(&mut r)))?;
                    let ok = matches!(back, Ok(ref p) if p == doc);
                    if !ok {
                        return Err(Violation::new(
                            "acknowledged-but-incomplete",
                            doc.kind(),
                            format!(
                                "write_xml returned Ok(()) for {} although write call #{} of {} failed ({:?}, {}); the {} bytes the sink accepted {}; tail: {}",
                                doc.summary(), idx, clean_calls, kind, if sticky { "sticky" } else { "one-shot" },
                                accepted.len(),
                                match back { Ok(p) => format!("parse back as a different value: {}", p.summary()), Err(e) => format!("do not parse: {}", e) },
                                tail(&accepted)
                            ),
                        ));
                    }
                }
            }
        }
        Ok(())
    }
}

impl C09 {
    /// Class E: stored bytes damaged (bit flips, overwritten / deleted /
    /// duplicated ranges, spliced-in markup), then read back under different
    /// chunkings. Whatever the parser makes of the damaged document, it must
    /// not panic, must not read past the document, and must make the *same*
    /// thing of it however the bytes arrive.
    fn class_e(
        &self,
        ctx: &Arc<SimCtx>,
        doc: &Doc,
        bytes: &Arc<Vec<u8>>,
        counters: &mut Counters,
        out: &mut RunOut,
    ) -> Result<(), Violation> {
        const SNIPPETS: [&[u8]; 12] = [
            b"<!d[<>", b"<!DOCTYPE x [<!ENTITY a \"b\">]>", b"<![CDATA[", b"]]>", b"<!--", b"-->", b"<?x", b"?>",
            b"&#x41;", b"&lol;", b"\"", b"<a xmlns:p=\"q\" p:r=\"s\"/>",
        ];
        let n_cases = if bytes.len() > 20_000 { 6 } else { 40 };
        for _ in 0..n_cases {
            let mut damaged = bytes.as_ref().clone();
            let len = damaged.len();
            if len == 0 {
                return Ok(());
            }
            let what = ctx.choose(6);
            let at = ctx.choose(len as u64) as usize;
            match what {
                0 => damaged[at] ^= 1 << ctx.choose(8),
                1 => damaged[at] = *[b'<', b'>', b'&', b'"', b'\'', b'/', b'=', b' ', 0u8, 0xff, b'!', b'-', b'[', b']', b'?', b';']
                    .get(ctx.choose(16) as usize).unwrap(),
                2 => {
                    let n = 1 + ctx.choose(((len - at).min(64)) as u64) as usize;
                    damaged.drain(at..at + n);
                }
                3 => {
                    let n = 1 + ctx.choose(((len - at).min(64)) as u64) as usize;
                    let dup: Vec<u8> = damaged[at..at + n].to_vec();
                    let to = ctx.choose(len as u64 + 1) as usize;
                    damaged.splice(to..to, dup);
                }
                4 => {
                    let snip = SNIPPETS[ctx.choose(SNIPPETS.len() as u64) as usize];
                    damaged.splice(at..at, snip.iter().copied());
                }
                _ => {
                    // a few independent bit flips
                    for _ in 0..(2 + ctx.choose(4)) {
                        let i = ctx.choose(len as u64) as usize;
                        damaged[i] ^= 1 << ctx.choose(8);
                    }
                }
            }
            let damaged = Arc::new(damaged);
            counters.bump(match what {
                0 | 5 => "fault_stored_bit_flip",
                1 => "fault_stored_byte_overwritten",
                2 => "fault_stored_range_lost",
                3 => "fault_stored_range_duplicated",
                _ => "fault_stored_markup_spliced",
            });
            // reference outcome: the whole document in one chunk
            let mut outcomes: Vec<(ReadCfg, Result<Doc, String>, u64)> = Vec::new();
            let cfgs = {
                let mut t = ctx.tape.lock().unwrap();
                let small = *t.pick(&[1usize, 2, 3, 5, 8, 13]);
                vec![
                    ReadCfg { mode: 0, chunk_max: 1 << 20, eintr: 0, fail_at: None, bound: None },
                    ReadCfg { mode: if damaged.len() > 20_000 { 2 } else { 1 }, chunk_max: if damaged.len() > 20_000 { 4096 } else { 1 }, eintr: 0, fail_at: None, bound: None },
                    ReadCfg { mode: 0, chunk_max: if damaged.len() > 20_000 { 4096 } else { small }, eintr: 0, fail_at: None, bound: None },
                    ReadCfg { mode: 2, chunk_max: *t.pick(&[7usize, 64, 1000]), eintr: if t.chance(1, 2) { 5 } else { 0 }, fail_at: None, bound: None },
                ]
            };
            for rcfg in cfgs {
                let mut r = reader(ctx, &damaged, rcfg);
                let res = guarded("parse-damaged", || Ok(doc.parse_same(&mut r)))?;
                if r.pulled > damaged.len() as u64 {
                    crate::common::harness_fail("pulled more than the document holds");
                }
                out.evaluations += 1;
                outcomes.push((rcfg, res, r.pulled));
            }
            out.sub_sigs.push(fnv(&damaged) ^ 0xE);
            let (ref_cfg, ref_res, _) = &outcomes[0];
            for (cfg, res, _) in &outcomes[1..] {
                let same = match (ref_res, res) {
                    (Ok(a), Ok(b)) => a == b,
                    (Err(_), Err(_)) => true,
                    _ => false,
                };
                if !same {
                    // The statement lets the parser return an error or a value
                    // for such a stream; it does not promise that the outcome is
                    // independent of chunk boundaries (quick-xml, for one, only
                    // strips a byte-order mark that arrives within the first
                    // chunk). Counted and logged, not alarmed.
                    counters.bump("probe_chunk_dependent_outcome_on_damaged_input");
                    let show = |r: &Result<Doc, String>| match r {
                        Ok(d) => format!("Ok({})", d.summary()),
                        Err(e) => format!("Err({})", e),
                    };
                    ctx.ev(40, at as u64, || format!("E: chunk-dependent outcome: {} with {:?} vs {} with {:?}", show(ref_res), ref_cfg, show(res), cfg));
                }
            }
            match ref_res {
                Ok(d) if d == doc => counters.bump("probe_damage_harmless"),
                Ok(_) => counters.bump("probe_damage_changed_value"),
                Err(_) => counters.bump("probe_damage_rejected"),
            }
        }
        Ok(())
    }
}

//------------ Class F: foreign but valid syntax ---------------------------------------------

const NS_URI: &str = "http://www.ripe.net/rpki/rrdp";

/// Renders `doc` the way some *other* RFC 8182 publisher might: byte-order
/// mark, XML declaration, DOCTYPE, comments, single-quoted attributes in any
/// order, character references, a namespace prefix, both empty-element
/// forms, CR LF line ends and line-wrapped base64.
fn render_foreign(doc: &Doc, t: &mut Tape) -> Vec<u8> {
    use base64_local::encode as b64;
    let mut out = String::new();
    let bom = t.chance(1, 4);
    let nl = if t.chance(1, 3) { "\r\n" } else { "\n" };
    if t.chance(1, 2) {
        let q = if t.chance(1, 2) { '\'' } else { '"' };
        out.push_str(&format!("<?xml version={q}1.0{q} encoding={q}UTF-8{q}?>{nl}"));
    }
    if t.chance(1, 4) {
        out.push_str(&format!("<!-- generated by another publisher -->{nl}"));
    }
    if t.chance(1, 5) {
        out.push_str(&format!("<!DOCTYPE {}>{nl}", doc.kind()));
    }
    let prefix = if t.chance(1, 4) { "r:" } else { "" };
    let esc = |v: &str, q: char, t: &mut Tape| -> String {
        let mut s = String::new();
        for ch in v.chars() {
            match ch {
                '&' => s.push_str("&amp;"),
                '<' => s.push_str("&lt;"),
                '"' if q == '"' => s.push_str("&quot;"),
                '\'' if q == '\'' => s.push_str("&apos;"),
                c if c.is_ascii_alphanumeric() && t.chance(1, 40) => s.push_str(&format!("&#x{:X};", c as u32)),
                c => s.push(c),
            }
        }
        s
    };
    let tag = |name: &str, attrs: Vec<(&str, String)>, t: &mut Tape| -> String {
        let mut attrs = attrs;
        // attribute order is not significant in XML
        for i in (1..attrs.len()).rev() {
            let j = t.choose(i as u64 + 1) as usize;
            attrs.swap(i, j);
        }
        let mut s = format!("<{}{}", prefix, name);
        for (k, v) in attrs {
            let q = if t.chance(1, 2) { '\'' } else { '"' };
            let ws = *t.pick(&[" ", "  ", "\n    ", "\t"]);
            let eq = *t.pick(&["=", " = ", "= "]);
            // (no character references inside the namespace name: namespace
            // matching is done on the raw attribute text by quick-xml)
            let val = if k.starts_with("xmlns") { v.clone() } else { esc(&v, q, t) };
            s.push_str(&format!("{ws}{k}{eq}{q}{}{q}", val));
        }
        if t.chance(1, 4) {
            s.push(' ');
        }
        s
    };
    let xmlns = if prefix.is_empty() { ("xmlns", NS_URI.to_string()) } else { ("xmlns:r", NS_URI.to_string()) };
    let wrap = |data: &[u8], t: &mut Tape| -> String {
        let enc = b64(data);
        let width = *t.pick(&[usize::MAX, 76, 64, 4, 1]);
        let mut s = String::new();
        for (i, ch) in enc.chars().enumerate() {
            if width != usize::MAX && i > 0 && i % width == 0 {
                s.push_str(nl);
                if t.chance(1, 2) {
                    s.push_str("  ");
                }
            }
            s.push(ch);
        }
        s
    };
    let comment = |t: &mut Tape| -> String {
        if t.chance(1, 6) { format!("{nl}<!-- note -->") } else { String::new() }
    };
    match doc {
        Doc::Notification(n) => {
            let open = tag("notification", vec![xmlns, ("version", "1".into()), ("session_id", n.session_id().to_string()), ("serial", n.serial().to_string())], t);
            out.push_str(&open);
            out.push('>');
            out.push_str(&comment(t));
            let mut children = vec![tag("snapshot", vec![("uri", n.snapshot().uri().to_string()), ("hash", n.snapshot().hash().to_string())], t)];
            for d in n.deltas() {
                children.push(tag("delta", vec![("serial", d.serial().to_string()), ("uri", d.uri().to_string()), ("hash", d.hash().to_string())], t));
            }
            for c in children {
                out.push_str(nl);
                out.push_str(&c);
                if t.chance(1, 2) {
                    out.push_str("/>");
                } else {
                    let name = if c.contains("snapshot") && !c.contains("delta") { "snapshot" } else if c.starts_with(&format!("<{}snapshot", prefix)) { "snapshot" } else { "delta" };
                    out.push_str(&format!("></{}{}>", prefix, name));
                }
                out.push_str(&comment(t));
            }
            out.push_str(&format!("{nl}</{}notification>", prefix));
        }
        Doc::Snapshot(sn) => {
            let open = tag("snapshot", vec![xmlns, ("version", "1".into()), ("session_id", sn.session_id().to_string()), ("serial", sn.serial().to_string())], t);
            out.push_str(&open);
            if sn.elements().is_empty() && t.chance(1, 2) {
                out.push_str("/>");
            } else {
                out.push('>');
                for e in sn.elements() {
                    out.push_str(nl);
                    out.push_str(&tag("publish", vec![("uri", e.uri().to_string())], t));
                    if e.data().is_empty() && t.chance(1, 2) {
                        out.push_str("/>");
                    } else {
                        out.push('>');
                        out.push_str(&wrap(e.data(), t));
                        out.push_str(&format!("</{}publish>", prefix));
                    }
                    out.push_str(&comment(t));
                }
                out.push_str(&format!("{nl}</{}snapshot>", prefix));
            }
        }
        Doc::Delta(d) => {
            let open = tag("delta", vec![xmlns, ("version", "1".into()), ("session_id", d.session_id().to_string()), ("serial", d.serial().to_string())], t);
            out.push_str(&open);
            out.push('>');
            for e in d.elements() {
                out.push_str(nl);
                match e {
                    DeltaElement::Publish(p) => {
                        out.push_str(&tag("publish", vec![("uri", p.uri().to_string())], t));
                        out.push('>');
                        out.push_str(&wrap(p.data(), t));
                        out.push_str(&format!("</{}publish>", prefix));
                    }
                    DeltaElement::Update(u) => {
                        out.push_str(&tag("publish", vec![("uri", u.uri().to_string()), ("hash", u.hash().to_string())], t));
                        out.push('>');
                        out.push_str(&wrap(u.data(), t));
                        out.push_str(&format!("</{}publish>", prefix));
                    }
                    DeltaElement::Withdraw(w) => {
                        out.push_str(&tag("withdraw", vec![("uri", w.uri().to_string()), ("hash", w.hash().to_string())], t));
                        if t.chance(1, 2) { out.push_str("/>") } else { out.push_str(&format!("></{}withdraw>", prefix)) }
                    }
                }
                out.push_str(&comment(t));
            }
            out.push_str(&format!("{nl}</{}delta>", prefix));
        }
    }
    if t.chance(1, 3) {
        out.push_str(nl);
    }
    if t.chance(1, 6) {
        out.push_str("<!-- end -->");
    }
    let mut bytes = Vec::new();
    if bom {
        bytes.extend_from_slice(&[0xEF, 0xBB, 0xBF]);
    }
    bytes.extend_from_slice(out.as_bytes());
    bytes
}

/// A tiny independent base64 encoder (standard alphabet, padded).
mod base64_local {
    const ALPHABET: &[u8; 64] = b"ABCDEFGHIJKLMNOPQRSTUVWXYZabcdefghijklmnopqrstuvwxyz0123456789+/";
    pub fn encode(data: &[u8]) -> String {
        let mut s = String::with_capacity(data.len().div_ceil(3) * 4);
        for chunk in data.chunks(3) {
            let b = [chunk[0], *chunk.get(1).unwrap_or(&0), *chunk.get(2).unwrap_or(&0)];
            let n = ((b[0] as u32) << 16) | ((b[1] as u32) << 8) | b[2] as u32;
            s.push(ALPHABET[(n >> 18) as usize & 63] as char);
            s.push(ALPHABET[(n >> 12) as usize & 63] as char);
            s.push(if chunk.len() > 1 { ALPHABET[(n >> 6) as usize & 63] as char } else { '=' });
            s.push(if chunk.len() > 2 { ALPHABET[n as usize & 63] as char } else { '=' });
        }
        s
    }
}

impl C09 {
    /// Class F: the same value written by a foreign publisher in other (valid)
    /// XML syntax, read under arbitrary chunking. The statement only demands
    /// "an error or a value", no panic, and nothing read beyond the stream; how
    /// often the value comes back equal is reported.
    fn class_f(&self, ctx: &Arc<SimCtx>, doc: &Doc, counters: &mut Counters, out: &mut RunOut) -> Result<(), Violation> {
        for _ in 0..6 {
            let (bytes, rcfg) = {
                let mut t = ctx.tape.lock().unwrap();
                (Arc::new(render_foreign(doc, &mut t)), gen_read_cfg(&mut t, true))
            };
            let streaming = !matches!(doc, Doc::Notification(_)) && ctx.chance(1, 2);
            let mut r = reader(ctx, &bytes, rcfg);
            let res = guarded("parse-foreign", || {
                Ok(if streaming {
                    let mut rec = Recorder { ctx: ctx.clone(), recs: Vec::new(), bulk: false };
                    let res = match doc {
                        Doc::Snapshot(_) => ProcessSnapshot::process(&mut rec, &mut r).map_err(|e| e.to_string()),
                        _ => ProcessDelta::process(&mut rec, &mut r).map_err(|e| e.to_string()),
                    };
                    res.map(|_| rec.recs == expected_recs(doc))
                } else {
                    doc.parse_same(&mut r).map(|d| d.same_as(doc))
                })
            })?;
            out.evaluations += 1;
            out.sub_sigs.push(fnv(&bytes) ^ 0xF0);
            counters.bump("fault_foreign_publisher_syntax");
            if r.over_consumed > 0 {
                return Err(Violation::new("over-consume", "foreign", format!("the parser consumed {} bytes more than fill_buf had exposed", r.over_consumed)));
            }
            ctx.ev(50, bytes.len() as u64, || {
                format!("F: foreign rendering ({} bytes, starts {:?}) read with {:?} -> {:?}", bytes.len(), String::from_utf8_lossy(&bytes[..bytes.len().min(60)]), rcfg, res)
            });
            match res {
                Ok(true) => counters.bump("probe_foreign_syntax_same_value"),
                Ok(false) => counters.bump("probe_foreign_syntax_different_value"),
                Err(e) => {
                    counters.bump("probe_foreign_syntax_rejected");
                    if std::env::var("SIM_DEBUG_FOREIGN").is_ok() {
                        eprintln!("FOREIGN-REJECTED {} :: {:?} :: {}", e, rcfg, String::from_utf8_lossy(&bytes[..bytes.len().min(400)]).replace('\n', "\\n").replace('\r', "\\r"));
                    }
                }
            }
        }
        Ok(())
    }
}

//------------ Class G: hostile field values -----------------------------------------------------

/// One hostile replacement for an attribute value, as it appears between the
/// quotes (already escaped where needed).
fn hostile_value(t: &mut Tape, expected_len: usize) -> String {
    // characters that need 2, 3 and 4 bytes in UTF-8, as raw text or as
    // decimal / hexadecimal character references
    let wide = ['\u{e9}', '\u{20ac}', '\u{1F600}'];
    // half of the values are plain ASCII on the wire: every multi-byte
    // character comes as a character reference (a check made on the raw
    // octets then sees nothing, the unescaped value has them all)
    let refs_only = t.chance(1, 2);
    let target = match t.choose(7) {
        0 | 6 => expected_len,
        1 => expected_len + 1,
        2 => expected_len.saturating_sub(1),
        3 => 0,
        4 => expected_len * 2,
        _ => t.choose(80) as usize,
    };
    match t.choose(8) {
        0 => String::new(),
        1 => "-1".into(),
        2 => "18446744073709551616".into(),
        3 => format!("+{}", t.choose(100)),
        4 => " 1 ".into(),
        5 => "0x10".into(),
        _ => {
            // a value of `target` bytes (after unescaping) mixing ASCII with
            // multi-byte characters at random positions
            let mut out = String::new();
            let mut bytes = 0usize;
            while bytes < target {
                let room = target - bytes;
                let pick = t.choose(5);
                let (ch, n) = if pick < 2 || room < 2 {
                    (*t.pick(&['a', 'f', '0', '9', 'G', '-', '/', ':']), 1)
                } else {
                    let c = wide[t.choose(3) as usize];
                    let n = c.len_utf8();
                    if n > room { ('b', 1) } else { (c, n) }
                };
                if n == 1 {
                    out.push(ch);
                } else {
                    match if refs_only { 1 + t.choose(2) } else { t.choose(3) } {
                        0 => out.push(ch),
                        1 => out.push_str(&format!("&#{};", ch as u32)),
                        _ => out.push_str(&format!("&#x{:X};", ch as u32)),
                    }
                }
                bytes += n;
            }
            out
        }
    }
}

/// Hostile text for the content of a `<publish>` element: Base 64 text with
/// a multi-byte character (raw or as a character reference), stray padding or
/// a character outside the alphabet at a chosen position of the
/// white-space-stripped text - biased to the multiples of 1024 and 3/4 of
/// them, where decoders refill their buffers - with or without interspersed
/// white space.
fn hostile_text(t: &mut Tape) -> String {
    let wide = ["\u{e9}", "\u{20ac}", "\u{1F600}", "&#233;", "&#x20AC;", "&#128512;", "=", "-", "_", "\u{a0}", "&amp;"];
    let at = if t.chance(1, 3) {
        t.choose(3100) as usize
    } else {
        let base = *t.pick(&[768usize, 1024, 2048, 3072, 1365, 4096, 8192]);
        (base + t.choose(9) as usize).saturating_sub(4)
    };
    let ws_every = *t.pick(&[0usize, 0, 1, 3, 64, 76, 1000]);
    let mut out = String::with_capacity(at + 64);
    let alphabet = b"QUJDREVGabcdwxyz0189+/";
    for i in 0..at {
        out.push(alphabet[i % alphabet.len()] as char);
        if ws_every > 0 && i % ws_every == ws_every - 1 {
            out.push(*t.pick(&[' ', '\n', '\t']));
        }
    }
    out.push_str(*t.pick(&wide[..]));
    for i in 0..t.choose(40) as usize {
        out.push(alphabet[i % alphabet.len()] as char);
    }
    if t.chance(1, 2) {
        out.push_str(*t.pick(&wide[..]));
    }
    out
}

impl C09 {
    /// Class G: a library-written document in which one attribute value was
    /// replaced by a hostile one (wrong length, out-of-range numbers, multi-byte
    /// characters as text or character references, sized so that byte and
    /// character counts disagree). Must give an error or a value, never a
    /// panic, under any chunking.
    fn class_g(&self, ctx: &Arc<SimCtx>, doc: &Doc, bytes: &Arc<Vec<u8>>, counters: &mut Counters, out: &mut RunOut) -> Result<(), Violation> {
        // locate the attribute values: name="value"
        let text = bytes.as_ref();
        let mut spans: Vec<(usize, usize, usize)> = Vec::new(); // (value start, value end, name length class)
        let mut i = 0;
        while i + 2 < text.len() {
            if text[i] == b'=' && text[i + 1] == b'"' {
                if let Some(end) = text[i + 2..].iter().position(|b| *b == b'"') {
                    spans.push((i + 2, i + 2 + end, end));
                    i += end + 3;
                    continue;
                }
            }
            i += 1;
            if spans.len() > 200 {
                break;
            }
        }
        if spans.is_empty() {
            return Ok(());
        }
        for _ in 0..24 {
            let (vs, ve, vlen) = spans[ctx.choose(spans.len() as u64) as usize];
            let (val, rcfg) = {
                let mut t = ctx.tape.lock().unwrap();
                (hostile_value(&mut t, vlen), gen_read_cfg(&mut t, true))
            };
            let mut damaged = text[..vs].to_vec();
            damaged.extend_from_slice(val.as_bytes());
            damaged.extend_from_slice(&text[ve..]);
            let damaged = Arc::new(damaged);
            let mut r = reader(ctx, &damaged, rcfg);
            ctx.ev(60, vs as u64, || format!("G: attribute value at byte {} (was {} bytes) replaced by {:?}", vs, vlen, val.chars().take(80).collect::<String>()));
            let res = guarded("parse-hostile-field", || Ok(doc.parse_same(&mut r)))?;
            out.evaluations += 1;
            out.sub_sigs.push(fnv(&damaged) ^ 0x60);
            counters.bump("fault_hostile_field_value");
            if r.over_consumed > 0 {
                return Err(Violation::new("over-consume", "field", format!("the parser consumed {} bytes more than fill_buf had exposed", r.over_consumed)));
            }
            match res {
                Ok(_) => counters.bump("probe_hostile_field_accepted"),
                Err(_) => counters.bump("probe_hostile_field_rejected"),
            }
        }
        // the same for element names (root or child): long names mixing ASCII
        // with multi-byte characters or octets that are not UTF-8, with or
        // without a namespace prefix - they end up in error values and log
        // messages, possibly shortened
        let mut names: Vec<(usize, usize)> = Vec::new();
        let mut i = 0;
        while i + 1 < text.len() && names.len() < 60 {
            if text[i] == b'<' && text[i + 1].is_ascii_alphabetic() {
                let end = text[i + 1..].iter().position(|b| matches!(b, b' ' | b'>' | b'/' | b'\n' | b'\t')).map(|e| i + 1 + e).unwrap_or(text.len());
                names.push((i + 1, end));
                i = end;
            } else {
                i += 1;
            }
        }
        for _ in 0..if names.is_empty() { 0 } else { 6 } {
            let (ns, ne) = names[ctx.choose(names.len() as u64) as usize];
            let (val, rcfg) = {
                let mut t = ctx.tape.lock().unwrap();
                let mut v: Vec<u8> = Vec::new();
                if t.chance(1, 3) {
                    v.extend_from_slice(b"p:");
                }
                let n = match t.choose(5) { 0 => t.choose(10) as usize, 1 => 120 + t.choose(10) as usize, 2 => 250 + t.choose(10) as usize, _ => 58 + t.choose(10) as usize };
                for k in 0..n {
                    v.push(b'a' + (k % 26) as u8);
                }
                match t.choose(5) {
                    0 => v.extend_from_slice("\u{e9}".as_bytes()),
                    1 => v.extend_from_slice("\u{20ac}".as_bytes()),
                    2 => v.extend_from_slice("\u{1F600}".as_bytes()),
                    3 => v.push(0xff),
                    _ => v.extend_from_slice(&[0xe2, 0x82]),
                }
                for k in 0..t.choose(8) as usize {
                    v.push(b'z' - (k % 26) as u8);
                }
                (v, gen_read_cfg(&mut t, true))
            };
            let mut damaged = text[..ns].to_vec();
            damaged.extend_from_slice(&val);
            damaged.extend_from_slice(&text[ne..]);
            let damaged = Arc::new(damaged);
            let mut r = reader(ctx, &damaged, rcfg);
            ctx.ev(62, ns as u64, || format!("G: element name at byte {} replaced by {} octets: {}", ns, val.len(), String::from_utf8_lossy(&val)));
            let streaming = !matches!(doc, Doc::Notification(_)) && ctx.chance(1, 2);
            let res = guarded("parse-hostile-name", || {
                Ok(if streaming {
                    let mut rec = Recorder { ctx: ctx.clone(), recs: Vec::new(), bulk: true };
                    match doc {
                        Doc::Snapshot(_) => ProcessSnapshot::process(&mut rec, &mut r).map(|_| ()).map_err(|e| e.to_string()),
                        _ => ProcessDelta::process(&mut rec, &mut r).map(|_| ()).map_err(|e| e.to_string()),
                    }
                } else {
                    doc.parse_same(&mut r).map(|_| ())
                })
            })?;
            out.evaluations += 1;
            out.sub_sigs.push(fnv(&damaged) ^ 0x62);
            counters.bump("fault_hostile_element_name");
            if r.over_consumed > 0 {
                return Err(Violation::new("over-consume", "name", format!("the parser consumed {} bytes more than fill_buf had exposed", r.over_consumed)));
            }
            match res {
                Ok(_) => counters.bump("probe_hostile_name_accepted"),
                Err(_) => counters.bump("probe_hostile_name_rejected"),
            }
        }
        // the same for the text of a <publish> element
        let mut texts: Vec<(usize, usize)> = Vec::new();
        let mut from = 0usize;
        while let Some(p) = text[from..].windows(8).position(|w| w == b"<publish") {
            let open = from + p;
            let tag_end = match text[open..].iter().position(|b| *b == b'>') { Some(e) => open + e, None => break };
            from = tag_end + 1;
            if text[tag_end - 1] == b'/' {
                continue;
            }
            if let Some(c) = text[from..].windows(10).position(|w| w == b"</publish>") {
                texts.push((from, from + c));
                from += c;
            }
            if texts.len() > 50 {
                break;
            }
        }
        if texts.is_empty() {
            return Ok(());
        }
        for _ in 0..8 {
            let (ts, te) = texts[ctx.choose(texts.len() as u64) as usize];
            let (val, rcfg, streaming) = {
                let mut t = ctx.tape.lock().unwrap();
                (hostile_text(&mut t), gen_read_cfg(&mut t, true), t.chance(1, 2))
            };
            let mut damaged = text[..ts].to_vec();
            damaged.extend_from_slice(val.as_bytes());
            damaged.extend_from_slice(&text[te..]);
            let damaged = Arc::new(damaged);
            let mut r = reader(ctx, &damaged, rcfg);
            ctx.ev(61, ts as u64, || format!("G: text of the <publish> element at byte {} replaced by {} bytes ending in {:?}", ts, val.len(), val.chars().rev().take(24).collect::<String>().chars().rev().collect::<String>()));
            let res = guarded("parse-hostile-text", || {
                Ok(if streaming {
                    let mut rec = LazyRecorder { ctx: ctx.clone(), recs: Vec::new() };
                    let mut full = Recorder { ctx: ctx.clone(), recs: Vec::new(), bulk: ctx.chance(1, 2) };
                    let lazy = ctx.chance(1, 3);
                    match doc {
                        Doc::Snapshot(_) if lazy => ProcessSnapshot::process(&mut rec, &mut r).map(|_| ()).map_err(|e| e.to_string()),
                        Doc::Snapshot(_) => ProcessSnapshot::process(&mut full, &mut r).map(|_| ()).map_err(|e| e.to_string()),
                        Doc::Delta(_) if lazy => ProcessDelta::process(&mut rec, &mut r).map(|_| ()).map_err(|e| e.to_string()),
                        Doc::Delta(_) => ProcessDelta::process(&mut full, &mut r).map(|_| ()).map_err(|e| e.to_string()),
                        _ => doc.parse_same(&mut r).map(|_| ()),
                    }
                } else {
                    doc.parse_same(&mut r).map(|_| ())
                })
            })?;
            out.evaluations += 1;
            out.sub_sigs.push(fnv(&damaged) ^ 0x61);
            counters.bump("fault_hostile_object_text");
            if r.over_consumed > 0 {
                return Err(Violation::new("over-consume", "text", format!("the parser consumed {} bytes more than fill_buf had exposed", r.over_consumed)));
            }
            match res {
                Ok(_) => counters.bump("probe_hostile_text_accepted"),
                Err(_) => counters.bump("probe_hostile_text_rejected"),
            }
        }
        Ok(())
    }
}

//------------ Class D: hostile peer -------------------------------------------------------

#[derive(Clone, Copy, Debug, PartialEq, Eq)]
enum Pos {
    Prolog,
    RootAttrs,
    AfterRootStart,
    ChildAttrs,
    ChildContent,
    AfterRootEnd,
    /// After the end of the first child element (between siblings).
    AfterFirstChild,
    /// Inside the start tag of the last child element.
    LastChildAttrs,
    /// As the content of a `<withdraw>` element of a delta.
    WithdrawContent,
    /// Inside an end tag (`</publish` or the root's), before its `>`.
    InEndTag,
}

#[derive(Clone, Copy, Debug, PartialEq, Eq)]
enum Hostile {
    Whitespace,
    Comment,
    ManyComments,
    ProcessingInstruction,
    DoctypeEntity,
    ElementName,
    AttrName,
    AttrValue,
    WhitespaceInTag,
    Text,
    Cdata,
    Nested,
    EntityRefs,
    Base64Text,
    ManyAttributes,
    NamespaceDecls,
    EntityInAttrValue,
}

const ALL_POS: [Pos; 10] = [
    Pos::Prolog, Pos::RootAttrs, Pos::AfterRootStart, Pos::ChildAttrs, Pos::ChildContent, Pos::AfterRootEnd,
    Pos::AfterFirstChild, Pos::LastChildAttrs, Pos::WithdrawContent, Pos::InEndTag,
];

fn kinds_for(pos: Pos) -> &'static [Hostile] {
    use Hostile::*;
    match pos {
        Pos::Prolog => &[Whitespace, Comment, ManyComments, ProcessingInstruction, DoctypeEntity, ElementName, Text],
        Pos::RootAttrs | Pos::ChildAttrs | Pos::LastChildAttrs => &[AttrName, AttrValue, WhitespaceInTag, ManyAttributes, NamespaceDecls, EntityInAttrValue],
        Pos::AfterFirstChild => &[Whitespace, Comment, ManyComments, Text, Cdata, ProcessingInstruction, ElementName, EntityRefs],
        Pos::WithdrawContent => &[Whitespace, Comment, ManyComments, Text, Base64Text, Cdata],
        Pos::InEndTag => &[WhitespaceInTag, AttrName],
        Pos::AfterRootStart => &[Whitespace, Comment, ManyComments, Text, Cdata, ProcessingInstruction, Nested, EntityRefs, ElementName],
        Pos::ChildContent => &[Base64Text, Whitespace, Comment, ManyComments, Cdata, EntityRefs, Nested],
        Pos::AfterRootEnd => &[Whitespace, Comment, ManyComments, Text, ProcessingInstruction, ElementName],
    }
}

/// (opener appended to the prefix, repeating unit)
fn hostile_bytes(kind: Hostile) -> (&'static [u8], &'static [u8]) {
    use Hostile::*;
    match kind {
        Whitespace => (b"", b" \n\t "),
        Comment => (b"<!-- ", b"lorem ipsum "),
        ManyComments => (b"", b"<!--x-->"),
        ProcessingInstruction => (b"<?bomb ", b"tick "),
        DoctypeEntity => (b"<!DOCTYPE lolz [ <!ENTITY lol \"", b"lol"),
        ElementName => (b"<", b"nnnnnnnn"),
        AttrName => (b" ", b"aaaaaaaa"),
        AttrValue => (b" x=\"", b"vvvvvvvv"),
        WhitespaceInTag => (b"", b"   \n"),
        Text => (b"", b"garbage "),
        Cdata => (b"<![CDATA[", b"cdata "),
        Nested => (b"", b"<a>"),
        EntityRefs => (b"", b"&amp;&lt;"),
        Base64Text => (b"", b"QUJD\n"),
        ManyAttributes => (b"", b" a=\"x\""),
        NamespaceDecls => (b"", b" xmlns:p=\"urn:x\""),
        EntityInAttrValue => (b" x=\"", b"&amp;&#65;"),
    }
}

/// Builds the valid prefix after which the hostile run starts for `pos`.
fn hostile_prefix(doc_kind: &str, bytes: &[u8], pos: Pos) -> Option<Vec<u8>> {
    let find = |needle: &[u8], from: usize| -> Option<usize> {
        if from > bytes.len() {
            return None;
        }
        bytes[from..].windows(needle.len()).position(|w| w == needle).map(|i| i + from)
    };
    let rfind = |needle: &[u8]| -> Option<usize> {
        bytes.windows(needle.len()).rposition(|w| w == needle)
    };
    let root_open = format!("<{}", doc_kind);
    let root = find(root_open.as_bytes(), 0)?;
    let root_tag_end = find(b">", root)?;
    let first_child = || -> Option<usize> {
        let child = find(b"<", root_tag_end + 1)?;
        if bytes.get(child + 1) == Some(&b'/') { None } else { Some(child) }
    };
    let upto = |n: usize| Some(bytes[..n].to_vec());
    match pos {
        Pos::Prolog => upto(0),
        Pos::RootAttrs => upto(root + root_open.len()),
        Pos::AfterRootStart => upto(root_tag_end + 1),
        Pos::ChildAttrs => {
            let child = first_child()?;
            let name_end = bytes[child..].iter().position(|b| *b == b' ' || *b == b'>' || *b == b'/')? + child;
            upto(name_end)
        }
        Pos::ChildContent => {
            let child = find(b"<publish", root_tag_end + 1)?;
            let end = find(b">", child)?;
            if bytes[end - 1] == b'/' {
                return None;
            }
            upto(end + 1)
        }
        Pos::AfterRootEnd => upto(bytes.len()),
        Pos::AfterFirstChild => {
            let child = first_child()?;
            let tag_end = find(b">", child)?;
            if bytes[tag_end - 1] == b'/' {
                upto(tag_end + 1)
            } else {
                // <publish ...> text </publish>
                let close = find(b"</", tag_end)?;
                let close_end = find(b">", close)?;
                upto(close_end + 1)
            }
        }
        Pos::LastChildAttrs => {
            // the last '<' that opens an element (not an end tag)
            let mut i = bytes.len();
            let child = loop {
                i = bytes[..i].iter().rposition(|b| *b == b'<')?;
                if bytes.get(i + 1) != Some(&b'/') {
                    break i;
                }
            };
            if child <= root {
                return None;
            }
            let name_end = bytes[child..].iter().position(|b| *b == b' ' || *b == b'>' || *b == b'/')? + child;
            upto(name_end)
        }
        Pos::WithdrawContent => {
            let w = find(b"<withdraw", root_tag_end + 1)?;
            let end = find(b"/>", w)?;
            let mut v = bytes[..end].to_vec();
            v.push(b'>');
            Some(v)
        }
        Pos::InEndTag => {
            // prefer a child's end tag, else the root's
            match find(b"</publish", root_tag_end + 1) {
                Some(c) => upto(c + b"</publish".len()),
                None => {
                    let c = rfind(b"</")?;
                    let name_end = bytes[c..].iter().position(|b| *b == b'>')? + c;
                    upto(name_end)
                }
            }
        }
    }
}

impl C09 {
    /// Runs one hostile stream and checks the read bound.
    #[allow(clippy::too_many_arguments)]
    fn hostile_case(
        &self,
        ctx: &Arc<SimCtx>,
        doc: &Doc,
        bytes: &Arc<Vec<u8>>,
        pos: Pos,
        kind: Hostile,
        counters: &mut Counters,
        out: &mut RunOut,
    ) -> Result<bool, Violation> {
        let mut prefix = match hostile_prefix(doc.kind(), bytes, pos) {
            Some(p) => p,
            None => return Ok(false),
        };
        let (opener, unit) = hostile_bytes(kind);
        prefix.extend_from_slice(opener);
        let l0 = prefix.len() as u64;
        // the limit in force at that position (DESIGN 4.4)
        let limit = match (doc, pos) {
            (Doc::Notification(_), _) => MAX_HEADER_SIZE,
            (_, Pos::Prolog) | (_, Pos::RootAttrs) => MAX_HEADER_SIZE,
            _ => MAX_FILE_SIZE,
        };
        let rcfg = {
            let mut t = ctx.tape.lock().unwrap();
            let chunk_max = if limit == MAX_FILE_SIZE { *t.pick(&[65536usize, 8192, 1 << 20]) } else { *t.pick(&[65536usize, 64, 1000, 8192]) };
            ReadCfg {
                mode: if limit == MAX_FILE_SIZE { 0 } else { t.choose(3) as u8 },
                chunk_max,
                eintr: if t.chance(1, 4) { 50 } else { 0 },
                fail_at: None,
                // "one buffer" is at least a common BufReader capacity
                bound: Some(l0 + limit + (chunk_max as u64).max(65536)),
            }
        };
        let max = l0 + 3 * limit;
        let gen = Gen::Hostile { prefix: Arc::new(prefix), unit: unit.to_vec(), pos: 0, max };
        ctx.ev(19, l0, || format!("D begins: {} {:?}/{:?} L0={} limit={} chunk_max={}", doc.kind(), pos, kind, l0, limit, rcfg.chunk_max));
        ctx.reset_polls();
        let mut r = SimBufRead::new(ctx, gen, rcfg);
        let mark = heap_mark();
        let streaming = !matches!(doc, Doc::Notification(_)) && ctx.chance(1, 2);
        let res = guarded("parse-hostile", || {
            Ok(if streaming {
                let mut rec = Recorder { ctx: ctx.clone(), recs: Vec::new(), bulk: false };
                match doc {
                    Doc::Snapshot(_) => ProcessSnapshot::process(&mut rec, &mut r).map(|_| "processed".to_string()).map_err(|e| e.to_string()),
                    _ => ProcessDelta::process(&mut rec, &mut r).map(|_| "processed".to_string()).map_err(|e| e.to_string()),
                }
            } else {
                doc.parse_same(&mut r).map(|d| d.summary())
            })
        })?;
        let peak = heap_peak_since(mark);
        out.evaluations += 1;
        out.sub_sigs.push(fnv(format!("{}{:?}{:?}{}", doc.kind(), pos, kind, rcfg.chunk_max).as_bytes()) ^ l0);
        counters.bump(if limit == MAX_FILE_SIZE { "fault_hostile_stream_100MB_limit" } else { "fault_hostile_stream_1MB_limit" });
        counters.max_into("probe_max_heap_peak_bytes", peak as u64);
        counters.max_into("probe_max_pulled_beyond_l0", r.pulled.saturating_sub(l0));
        ctx.ev(20, r.pulled, || {
            format!(
                "D: {} {:?}/{:?} L0={} limit={} chunk_max={} -> pulled {} bound {:?} peak heap {} result {:?}",
                doc.kind(), pos, kind, l0, limit, rcfg.chunk_max, r.pulled, rcfg.bound, peak,
                res.as_ref().map_err(|e| e.chars().take(60).collect::<String>())
            )
        });
        let key = format!("{}/{:?}/{:?}", doc.kind(), pos, kind);
        if r.over_consumed > 0 {
            return Err(Violation::new(
                "over-consume",
                key,
                format!("the parser consumed {} bytes more than fill_buf had exposed (BufRead contract)", r.over_consumed),
            ));
        }
        let breached = r.bound_breached.or(if r.pulled > rcfg.bound.unwrap() { Some(r.pulled) } else { None });
        if let Some(p) = breached {
            return Err(Violation::new(
                "read-bound",
                key,
                format!(
                    "hostile {:?} at {:?} of a {}: parser pulled {} bytes; bound is L0 {} + limit {} + max(chunk {}, 64 KiB) = {}",
                    kind, pos, doc.kind(), p, l0, limit, rcfg.chunk_max, rcfg.bound.unwrap()
                ),
            ));
        }
        if res.is_ok() {
            // "returns an error or a value": a parser that stops reading
            // within the bound and returns a value has not broken the statement
            // (e.g. one that does not look beyond the root's end tag).
            counters.bump("probe_hostile_stream_yielded_value");
        }
        if r.pulled >= l0 + limit {
            counters.bump(if limit == MAX_FILE_SIZE { "probe_file_limit_tripped" } else { "probe_header_limit_tripped" });
        } else {
            counters.bump("probe_hostile_rejected_early");
        }
        // heap: measured and reported; the statement bounds bytes read, not memory
        let heap_ref = 16 * (limit as usize + rcfg.chunk_max) + (4 << 20);
        if peak > heap_ref {
            counters.bump("probe_heap_above_16x_limit");
        }
        Ok(true)
    }
}

impl C09 {
    /// Two runs inside ONE element: a long but permitted run of white space
    /// inside its start tag (between the name and the first attribute), the
    /// tag then completes as written, and an endless run follows as the
    /// element's content. The per-element limit covers both together, so the
    /// bound is counted from the start of that element.
    /// `which`: 0 = first `<publish`, 1 = first `<withdraw`, 2 = the
    /// notification's `<snapshot` entry, 3 = its first `<delta` entry.
    #[allow(clippy::too_many_arguments)]
    fn two_stage_case(
        &self,
        ctx: &Arc<SimCtx>,
        doc: &Doc,
        bytes: &Arc<Vec<u8>>,
        which: u64,
        frac: (u64, u64),
        kind: Hostile,
        // a run of VALID content (Base 64 groups in a <publish>, white space
        // elsewhere) of this share of the limit between the start tag and the
        // endless run
        content_share: Option<(u64, u64)>,
        // the endless run is white space inside the element's END tag instead
        // of content of kind `kind`
        in_end_tag: bool,
        counters: &mut Counters,
        out: &mut RunOut,
    ) -> Result<bool, Violation> {
        let text: &[u8] = bytes.as_ref();
        let find = |needle: &[u8], from: usize| -> Option<usize> {
            if from > text.len() { return None; }
            text[from..].windows(needle.len()).position(|w| w == needle).map(|i| i + from)
        };
        let root_open = format!("<{}", doc.kind());
        let located = (|| {
            let root = find(root_open.as_bytes(), 0)?;
            let root_tag_end = find(b">", root)?;
            let name: &[u8] = match (doc, which) {
                (Doc::Notification(_), 2) => b"<snapshot",
                (Doc::Notification(_), 3) => b"<delta",
                (Doc::Snapshot(_), 0) | (Doc::Delta(_), 0) => b"<publish",
                (Doc::Delta(_), 1) => b"<withdraw",
                _ => return None,
            };
            let e0 = find(name, root_tag_end + 1)?;
            let name_end = e0 + name.len();
            if !matches!(text.get(name_end), Some(b' ') | Some(b'\n') | Some(b'\t')) {
                return None;
            }
            let tag_end = find(b">", name_end)?;
            Some((e0, name_end, tag_end))
        })();
        let (e0, name_end, tag_end) = match located {
            Some(x) => x,
            None => return Ok(false),
        };
        let limit = match doc {
            Doc::Notification(_) => MAX_HEADER_SIZE,
            _ => MAX_FILE_SIZE,
        };
        let s1 = limit / frac.1 * frac.0;
        // the rest of the start tag as written; an empty-element tag is opened up
        let mut rest = text[name_end..tag_end].to_vec();
        if rest.last() == Some(&b'/') {
            rest.pop();
        }
        rest.push(b'>');
        let el_name: Vec<u8> = text[e0 + 1..name_end].to_vec();
        let is_publish = el_name == b"publish";
        let s2 = content_share.map(|(a, b)| limit / b * a).unwrap_or(0);
        let (opener, unit): (Vec<u8>, Vec<u8>) = if in_end_tag {
            let mut o = b"</".to_vec();
            o.extend_from_slice(&el_name);
            (o, b"   \n".to_vec())
        } else {
            let (o, u) = hostile_bytes(kind);
            (o.to_vec(), u.to_vec())
        };
        let mut after_content = Vec::new();
        after_content.extend_from_slice(&opener);
        let rcfg = {
            let mut t = ctx.tape.lock().unwrap();
            let chunk_max = if limit == MAX_FILE_SIZE { *t.pick(&[65536usize, 8192, 1 << 20]) } else { *t.pick(&[65536usize, 64, 1000, 8192]) };
            ReadCfg {
                mode: if limit == MAX_FILE_SIZE { 0 } else { t.choose(3) as u8 },
                chunk_max,
                eintr: if t.chance(1, 4) { 50 } else { 0 },
                fail_at: None,
                bound: Some(e0 as u64 + limit + (chunk_max as u64).max(65536)),
            }
        };
        let sections = vec![
            Section::Bytes(Arc::new(text[..name_end].to_vec())),
            Section::Repeat { unit: b" \n\t ".to_vec(), len: Some(s1) },
            Section::Bytes(Arc::new(rest)),
            // whole Base 64 groups / lines, so that the valid content is valid
            Section::Repeat { unit: if is_publish { b"QUJD\n".to_vec() } else { b" \n\t ".to_vec() }, len: Some(s2 / 5 * 5) },
            Section::Bytes(Arc::new(after_content)),
            Section::Repeat { unit: unit.to_vec(), len: None },
        ];
        let gen = Gen::Sections { sections, pos: 0, max: e0 as u64 + 3 * limit };
        ctx.ev(19, e0 as u64, || format!(
            "D2 begins: {} element#{} at {}: {} bytes of white space in its start tag, {} bytes of valid content, then endless {}",
            doc.kind(), which, e0, s1, s2, if in_end_tag { "white space inside its end tag".to_string() } else { format!("{:?} as content", kind) }
        ));
        ctx.reset_polls();
        let mut r = SimBufRead::new(ctx, gen, rcfg);
        let streaming = !matches!(doc, Doc::Notification(_)) && ctx.chance(1, 2);
        let res = guarded("parse-hostile", || {
            Ok(if streaming {
                let mut rec = Recorder { ctx: ctx.clone(), recs: Vec::new(), bulk: false };
                match doc {
                    Doc::Snapshot(_) => ProcessSnapshot::process(&mut rec, &mut r).map(|_| "processed".to_string()).map_err(|e| e.to_string()),
                    _ => ProcessDelta::process(&mut rec, &mut r).map(|_| "processed".to_string()).map_err(|e| e.to_string()),
                }
            } else {
                doc.parse_same(&mut r).map(|d| d.summary())
            })
        })?;
        out.evaluations += 1;
        out.sub_sigs.push(fnv(format!("2stage{}{}{:?}{:?}{:?}{}{}", doc.kind(), which, frac, kind, content_share, in_end_tag, rcfg.chunk_max).as_bytes()) ^ e0 as u64);
        counters.bump(if limit == MAX_FILE_SIZE { "fault_two_runs_in_one_element_100MB_limit" } else { "fault_two_runs_in_one_element_1MB_limit" });
        counters.max_into("probe_max_pulled_beyond_element_start_two_runs", r.pulled.saturating_sub(e0 as u64));
        ctx.ev(21, r.pulled, || {
            format!(
                "D2: {} element#{} at {}: {} bytes of white space in its start tag, {} bytes of valid content, then endless {} ; limit={} chunk_max={} -> pulled {} bound {:?} result {:?}",
                doc.kind(), which, e0, s1, s2, if in_end_tag { "white space inside its end tag".to_string() } else { format!("{:?} as content", kind) }, limit, rcfg.chunk_max, r.pulled, rcfg.bound,
                res.as_ref().map_err(|e| e.chars().take(60).collect::<String>())
            )
        });
        let key = format!("{}/two-runs-{}/{}", doc.kind(), which, if in_end_tag { "EndTag".to_string() } else { format!("{:?}", kind) });
        if r.over_consumed > 0 {
            return Err(Violation::new("over-consume", key, format!("the parser consumed {} bytes more than fill_buf had exposed (BufRead contract)", r.over_consumed)));
        }
        let breached = r.bound_breached.or(if r.pulled > rcfg.bound.unwrap() { Some(r.pulled) } else { None });
        if let Some(p) = breached {
            return Err(Violation::new(
                "read-bound",
                key,
                format!(
                    "a {} element starting at byte {} with {} bytes of white space in its start tag, {} bytes of valid content and then endless {}: parser pulled {} bytes; bound is element start {} + limit {} + max(chunk {}, 64 KiB) = {}",
                    doc.kind(), e0, s1, s2, if in_end_tag { "white space inside its end tag".to_string() } else { format!("{:?} as content", kind) }, p, e0, limit, rcfg.chunk_max, rcfg.bound.unwrap()
                ),
            ));
        }
        if res.is_ok() {
            counters.bump("probe_hostile_stream_yielded_value");
        }
        if r.pulled >= e0 as u64 + s1 + s2 + 1000 {
            counters.bump("probe_two_runs_second_run_reached");
            if s2 > 0 {
                counters.bump("probe_run_after_long_valid_content_reached");
            }
        }
        Ok(true)
    }
}

impl C09 {
    /// The limits approached from the valid side: (0) one object whose
    /// element stays just below the 100 MB per-element limit must round-trip;
    /// (1) one whose element exceeds it must be cut off within the bound; (2) a
    /// snapshot of 110 one-megabyte objects - 147 MB in total, every element far
    /// below the limit - must round-trip, i.e. the limit is per element; (3) a
    /// delta with a 5 MB publish, a withdraw and a 97 MB update must round-trip
    /// (the 100 MB limit applies to delta elements as well).
    fn large_valid_case(&self, ctx: &Arc<SimCtx>, which: u64, counters: &mut Counters, out: &mut RunOut) -> Result<(), Violation> {
        let fill = |n: usize, seed: u8| -> Bytes {
            let mut v = vec![0u8; n];
            for (i, b) in v.iter_mut().enumerate() {
                *b = seed.wrapping_add((i as u8).wrapping_mul(13)) ^ ((i >> 11) as u8);
            }
            Bytes::from(v)
        };
        let uri = |i: usize| uri::Rsync::from_string(format!("rsync://rpki.example.net/repo/obj-{}.roa", i)).unwrap();
        let doc = match which {
            0 => Doc::Snapshot(Snapshot::new(Uuid::nil(), 1, vec![PublishElement::new(uri(0), fill(73_000_000, 1))])),
            1 => Doc::Snapshot(Snapshot::new(Uuid::nil(), 1, vec![PublishElement::new(uri(0), fill(76_000_000, 2))])),
            2 => Doc::Snapshot(Snapshot::new(Uuid::nil(), 1, (0..110).map(|i| PublishElement::new(uri(i), fill(1_000_000, i as u8))).collect())),
            _ => Doc::Delta(Delta::new(Uuid::nil(), 2, vec![
                DeltaElement::Publish(PublishElement::new(uri(0), fill(5_000_000, 3))),
                DeltaElement::Withdraw(WithdrawElement::new(uri(1), Hash::from([7u8; 32]))),
                DeltaElement::Update(UpdateElement::new(uri(2), Hash::from([9u8; 32]), fill(73_000_000, 4))),
            ])),
        };
        let mut w = SimWrite::new(ctx, WriteCfg { short_writes: false, eintr: 0, fault: WriteFault::None, fault_kind: std::io::ErrorKind::Other });
        guarded("write_xml-large", || Ok(doc.write(&mut w)))?.map_err(|e| Violation::new("write-failed", "large", e.to_string()))?;
        let bytes = Arc::new(std::mem::take(&mut w.accepted));
        let l0 = hostile_prefix("snapshot", &bytes, Pos::AfterRootStart).map(|p| p.len() as u64).unwrap_or(0);
        // a 64 KiB reader, or the whole file handed out as one buffer
        let chunk_max = if which == 1 || ctx.chance(1, 2) { 1usize << 16 } else { 1usize << 30 };
        let rcfg = ReadCfg { mode: 0, chunk_max, eintr: 0, fail_at: None, bound: if which == 1 { Some(l0 + MAX_FILE_SIZE + 65536) } else { None } };
        let mut r = reader(ctx, &bytes, rcfg);
        let mut rec = Recorder { ctx: ctx.clone(), recs: Vec::new(), bulk: true };
        let res = guarded("process-large", || {
            Ok(match doc {
                Doc::Snapshot(_) => ProcessSnapshot::process(&mut rec, &mut r).map_err(|e| e.to_string()),
                _ => ProcessDelta::process(&mut rec, &mut r).map_err(|e| e.to_string()),
            })
        })?;
        out.evaluations += 1;
        ctx.ev(30, which, || format!("large valid case {}: document {} bytes, pulled {}, result {:?}", which, bytes.len(), r.pulled, res.as_ref().map_err(|e| e.chars().take(60).collect::<String>())));
        match which {
            1 => {
                counters.bump("fault_valid_element_above_file_limit");
                let breached = r.bound_breached.or(if r.pulled > rcfg.bound.unwrap() { Some(r.pulled) } else { None });
                if let Some(p) = breached {
                    return Err(Violation::new(
                        "read-bound",
                        "snapshot/valid-element-over-limit",
                        format!("a publish element of {} bytes (limit {}): parser pulled {} bytes, bound {}", bytes.len(), MAX_FILE_SIZE, p, rcfg.bound.unwrap()),
                    ));
                }
                if res.is_ok() {
                    counters.bump("probe_hostile_stream_yielded_value");
                } else if r.pulled >= l0 + MAX_FILE_SIZE {
                    counters.bump("probe_file_limit_tripped");
                }
            }
            _ => {
                counters.bump(match which {
                    0 => "probe_valid_element_just_below_file_limit",
                    2 => "probe_valid_document_larger_than_file_limit",
                    _ => "probe_valid_delta_elements_just_below_file_limit",
                });
                match res {
                    Err(e) => {
                        return Err(Violation::new(
                            "roundtrip-rejected",
                            match which { 0 => "snapshot/element-just-below-limit", 2 => "snapshot/document-above-limit-elements-below", _ => "delta/elements-just-below-limit" },
                            format!("a library-written file of {} bytes whose largest element is below the {} byte limit is rejected: {}", bytes.len(), MAX_FILE_SIZE, e),
                        ));
                    }
                    Ok(()) => {
                        if rec.recs != expected_recs(&doc) {
                            return Err(Violation::new("roundtrip-mismatch", "snapshot/large", "large snapshot parses back differently".to_string()));
                        }
                    }
                }
            }
        }
        Ok(())
    }
}

//------------ Scenario --------------------------------------------------------------------

impl C09 {
    fn run_inner(&self, kind: RunKind, tier: Tier, ctx: &Arc<SimCtx>, counters: &mut Counters, out: &mut RunOut) -> Result<(), Violation> {
        match kind {
            RunKind::Sweep(i) if i >= 3 * 10 * 17 + 4 => {
                // Runs within one element. Part A (60 cells): element (5) x share of
                // the limit used by white space in its start tag (2) x kind of the
                // endless run that follows as its content (6). Part B (30 cells):
                // element (5) x share used by VALID content (2) x what follows it
                // (white space inside the end tag / endless small comments / one
                // endless comment). The digits are independent of each other.
                let j = i - (3 * 10 * 17 + 4);
                let (el, frac, hk, content_share, in_end_tag) = if j < 60 {
                    (
                        j % 5,
                        [(1u64, 4u64), (9, 10)][((j / 5) % 2) as usize],
                        [Hostile::Whitespace, Hostile::Base64Text, Hostile::Comment, Hostile::Cdata, Hostile::EntityRefs, Hostile::Nested][((j / 10) % 6) as usize],
                        None,
                        false,
                    )
                } else {
                    let k = j - 60;
                    let tail = (k / 10) % 3;
                    (
                        k % 5,
                        (0u64, 1u64),
                        if tail == 1 { Hostile::ManyComments } else { Hostile::Comment },
                        Some([(1u64, 2u64), (9, 10)][((k / 5) % 2) as usize]),
                        tail == 0,
                    )
                };
                // element: 0 = <publish> of a snapshot, 1 = <publish> of a delta,
                // 2 = <withdraw> of a delta, 3 / 4 = the <snapshot> / first
                // <delta> entry of a notification
                let which = [0u64, 0, 1, 2, 3][el as usize];
                let doc = {
                    let mut t = ctx.tape.lock().unwrap();
                    match el {
                        3 | 4 => {
                            let host = "rrdp.example.net";
                            Doc::Notification(NotificationFile::new(
                                gen_uuid(&mut t), 7,
                                UriAndHash::new(gen_https(&mut t, host), gen_hash(&mut t)),
                                vec![DeltaInfo::new(7, gen_https(&mut t, host), gen_hash(&mut t))],
                            ))
                        }
                        0 => Doc::Snapshot(Snapshot::new(gen_uuid(&mut t), 7, vec![PublishElement::new(gen_rsync(&mut t), Bytes::from_static(b"hello world!!"))])),
                        _ => Doc::Delta(Delta::new(
                            gen_uuid(&mut t), 7,
                            vec![
                                DeltaElement::Publish(PublishElement::new(gen_rsync(&mut t), Bytes::from_static(b"hello"))),
                                DeltaElement::Withdraw(WithdrawElement::new(gen_rsync(&mut t), gen_hash(&mut t))),
                            ],
                        )),
                    }
                };
                let mut w = SimWrite::new(ctx, WriteCfg { short_writes: false, eintr: 0, fault: WriteFault::None, fault_kind: std::io::ErrorKind::Other });
                doc.write(&mut w).map_err(|e| Violation::new("write-failed", doc.kind(), e.to_string()))?;
                let bytes = Arc::new(w.accepted);
                if self.two_stage_case(ctx, &doc, &bytes, which, frac, hk, content_share, in_end_tag, counters, out)? {
                    out.nontrivial = true;
                }
                Ok(())
            }
            RunKind::Sweep(i) if i >= 3 * 10 * 17 => {
                out.nontrivial = true;
                self.large_valid_case(ctx, i - 3 * 10 * 17, counters, out)
            }
            RunKind::Sweep(i) => {
                // hostile grid: doc kind (3) x position (10) x hostile kind (17, those applicable)
                let doc_kind = i % 3;
                let pos = ALL_POS[((i / 3) % 10) as usize];
                let all = [
                    Hostile::Whitespace, Hostile::Comment, Hostile::ManyComments, Hostile::ProcessingInstruction,
                    Hostile::DoctypeEntity, Hostile::ElementName, Hostile::AttrName, Hostile::AttrValue,
                    Hostile::WhitespaceInTag, Hostile::Text, Hostile::Cdata, Hostile::Nested, Hostile::EntityRefs,
                    Hostile::Base64Text, Hostile::ManyAttributes, Hostile::NamespaceDecls, Hostile::EntityInAttrValue,
                ];
                let hk = all[((i / 30) % 17) as usize];
                if !kinds_for(pos).contains(&hk) {
                    return Ok(());
                }
                let doc = {
                    let mut t = ctx.tape.lock().unwrap();
                    // a small document with at least one child with content
                    match doc_kind {
                        0 => {
                            let host = "rrdp.example.net";
                            Doc::Notification(NotificationFile::new(
                                gen_uuid(&mut t), 7,
                                UriAndHash::new(gen_https(&mut t, host), gen_hash(&mut t)),
                                vec![DeltaInfo::new(7, gen_https(&mut t, host), gen_hash(&mut t))],
                            ))
                        }
                        1 => Doc::Snapshot(Snapshot::new(gen_uuid(&mut t), 7, vec![PublishElement::new(gen_rsync(&mut t), Bytes::from_static(b"hello world!!"))])),
                        _ => Doc::Delta(Delta::new(
                            gen_uuid(&mut t), 7,
                            vec![
                                DeltaElement::Publish(PublishElement::new(gen_rsync(&mut t), Bytes::from_static(b"hello"))),
                                DeltaElement::Withdraw(WithdrawElement::new(gen_rsync(&mut t), gen_hash(&mut t))),
                            ],
                        )),
                    }
                };
                let mut w = SimWrite::new(ctx, WriteCfg { short_writes: false, eintr: 0, fault: WriteFault::None, fault_kind: std::io::ErrorKind::Other });
                doc.write(&mut w).map_err(|e| Violation::new("write-failed", doc.kind(), e.to_string()))?;
                let bytes = Arc::new(w.accepted);
                // the 100 MB positions are expensive: the quick sweep keeps a third of them
                if self.hostile_case(ctx, &doc, &bytes, pos, hk, counters, out)? {
                    out.nontrivial = true;
                }
                Ok(())
            }
            RunKind::Random => {
                let (doc, big) = {
                    let mut t = ctx.tape.lock().unwrap();
                    let big = t.chance(1, 400);
                    if big {
                        // a notification whose delta list alone exceeds the 1 MB
                        // per-element limit: the limit must be per element
                        let host = gen_host(&mut t);
                        let serial = 1_000_000u64;
                        let snap = UriAndHash::new(gen_https(&mut t, &host), gen_hash(&mut t));
                        let uri = gen_https(&mut t, &host);
                        let h = gen_hash(&mut t);
                        let deltas = (0..9000u64).map(|i| DeltaInfo::new(serial - i, uri.clone(), h)).collect();
                        (Doc::Notification(NotificationFile::new(gen_uuid(&mut t), serial, snap, deltas)), true)
                    } else {
                        let with_data = t.chance(7, 8);
                        let mut doc = gen_doc(&mut t, with_data);
                        if tier == Tier::Thorough && t.chance(1, 50) {
                            // occasionally a much larger snapshot: up to 300
                            // elements with objects up to 64 KiB
                            let n = 1 + t.choose(300) as usize;
                            let elements = (0..n)
                                .map(|_| {
                                    let len = if t.chance(1, 10) { t.choose(65536) as usize } else { t.choose(200) as usize };
                                    let seed = t.choose(256) as u8;
                                    PublishElement::new(gen_rsync(&mut t), Bytes::from((0..len).map(|i| seed.wrapping_add((i * 7) as u8)).collect::<Vec<u8>>()))
                                })
                                .collect();
                            doc = Doc::Snapshot(Snapshot::new(gen_uuid(&mut t), gen_serial(&mut t), elements));
                        }
                        (doc, false)
                    }
                };
                ctx.ev(1, 0, || format!("document: {}", doc.summary()));
                if big {
                    counters.bump("probe_document_larger_than_header_limit");
                }
                let bytes = self.class_a(ctx, &doc, counters, out)?;
                out.nontrivial = true;
                if big {
                    return Ok(());
                }
                // number of write calls of a clean write (for class C enumeration)
                let mut w = SimWrite::new(ctx, WriteCfg { short_writes: false, eintr: 0, fault: WriteFault::None, fault_kind: std::io::ErrorKind::Other });
                let _ = doc.write(&mut w);
                let clean_calls = w.calls;
                match ctx.choose(6) {
                    5 => self.class_g(ctx, &doc, &bytes, counters, out)?,
                    0 => self.class_b(ctx, &doc, &bytes, counters, out)?,
                    1 => self.class_c(ctx, &doc, clean_calls, counters, out)?,
                    2 => self.class_e(ctx, &doc, &bytes, counters, out)?,
                    3 => self.class_f(ctx, &doc, counters, out)?,
                    _ => {
                        // hostile takeover of this very document (1 MB positions
                        // always; 100 MB positions rarely, they cost ~0.2 s)
                        let pos = ALL_POS[ctx.choose(10) as usize];
                        let kinds = kinds_for(pos);
                        let hk = kinds[ctx.choose(kinds.len() as u64) as usize];
                        let heavy = !matches!(doc, Doc::Notification(_)) && !matches!(pos, Pos::Prolog | Pos::RootAttrs);
                        if ctx.chance(1, 4) {
                            // two runs within one element of this document
                            let which = ctx.choose(4);
                            let frac = [(1u64, 4u64), (1, 2), (9, 10)][ctx.choose(3) as usize];
                            let k2 = [Hostile::Whitespace, Hostile::Base64Text, Hostile::Comment, Hostile::ManyComments, Hostile::Cdata, Hostile::EntityRefs, Hostile::Nested, Hostile::Text];
                            let hk2 = k2[ctx.choose(k2.len() as u64) as usize];
                            let heavy2 = !matches!(doc, Doc::Notification(_));
                            if !heavy2 || ctx.chance(1, if tier == Tier::Thorough { 12 } else { 40 }) {
                                let content_share = match ctx.choose(3) { 0 => Some((1u64, 2u64)), 1 => Some((1, 4)), _ => None };
                                // shares of the limit: start tag + valid content stay below the whole
                                let frac = match content_share {
                                    Some((1, 2)) => (1, 4),
                                    Some(_) => if frac == (9, 10) { (1, 2) } else { frac },
                                    None => frac,
                                };
                                let in_end_tag = ctx.chance(1, 4);
                                self.two_stage_case(ctx, &doc, &bytes, which, frac, hk2, content_share, in_end_tag, counters, out)?;
                            }
                        } else if !heavy || ctx.chance(1, if tier == Tier::Thorough { 12 } else { 40 }) {
                            self.hostile_case(ctx, &doc, &bytes, pos, hk, counters, out)?;
                        }
                    }
                }
                Ok(())
            }
        }
    }
}

impl Scenario for C09 {
    fn id(&self) -> &'static str { "C09" }
    fn name(&self) -> &'static str { "rrdp-stream" }
    fn level(&self) -> &'static str { "exploration" }

    fn sweep_len(&self, _tier: Tier) -> u64 {
        3 * 10 * 17 + 4 + 60 + 30
    }

    fn random_runs(&self, tier: Tier) -> u64 {
        match tier { Tier::Quick => 40_000, Tier::Thorough => 1_500_000 }
    }

    fn run(&self, kind: RunKind, tier: Tier, tape: Tape, log: bool) -> (RunOut, Tape) {
        let _ = crate::exec::take_panics();
        // run-away guard per parse/write (reset by `reader()` and the writers)
        let ctx = Arc::new(SimCtx::new(tape, log, 2_000_000_000));
        let mut out = RunOut::default();
        let mut counters = Counters::default();
        let res = match std::panic::catch_unwind(std::panic::AssertUnwindSafe(|| self.run_inner(kind, tier, &ctx, &mut counters, &mut out))) {
            Ok(r) => r,
            Err(p) => Err(crate::exec::violation_from_panic("run", p)),
        };
        out.violation = res.err();
        counters.merge(&ctx.counters.lock().unwrap());
        out.counters = counters;
        let mut lg = ctx.log.lock().unwrap();
        out.sig = lg.sig;
        out.log = std::mem::take(&mut lg.lines);
        drop(lg);
        let tape = ctx.tape.lock().unwrap().clone();
        (out, tape)
    }

    fn rule(&self) -> &'static str {
        "A random run generates one protocol-valid notification / snapshot / delta value (any UUID, \
         serials incl. 0 and u64::MAX, URIs over the full permitted alphabet incl. & ' ( ) * + , ; =, \
         object lengths 0..4 KiB covering every base64 tail and the encoder's buffer size plus lengths around 1 KiB..128 KiB chunk boundaries and up to 200 kB, 0..50 \
         elements, delta serial lists sorted/unsorted/gapped/duplicated; 1 in 400 runs a notification \
         larger than the 1 MB per-element limit) and sends it through writer -> SimWrite -> wire -> \
         SimBufRead -> parser: class A (benign: short reads down to 1 byte, EINTR on read and write, \
         short writes where no base64 is involved) must round-trip through the owned parsers and the \
         streaming processors, then one of class B (EOF or hard read error at EVERY offset of documents \
         up to 1500 bytes, 300 sampled offsets up to 20 kB, 40 beyond), class C (one-shot or sticky write error at EVERY \
         write call index up to 400 calls), class E (stored bytes damaged - bit flips, overwritten, lost or \
         duplicated ranges, spliced-in markup - then parsed under four chunkings: no panic, nothing read past the \
         end; disagreement between chunkings is counted), class F (the value re-rendered as a foreign publisher \
         might - BOM, XML declaration, DOCTYPE, comments, single quotes, attribute order, character references, \
         namespace prefix, both empty-element forms, CR LF, wrapped base64 - no panic; equal/different/rejected \
         counted), class G (one attribute value replaced by a hostile one: wrong length, out-of-range numbers, \
         multi-byte characters as text or character references sized so that byte and character counts disagree; or \
         the text of a <publish> element replaced by Base 64 with a multi-byte character, stray padding or a foreign \
         character around buffer multiples - no panic) or class D (the document taken over at a structural position \
         by an endless hostile run with the bytes-pulled monitor armed; or two runs within one element: white space of \
         1/4..9/10 of the limit in its start tag, then an endless run as its content, bound from the element start). \
         The sweep walks document kind x position (10) x hostile kind (17), four cells at the 100 MB limit from the \
         valid side, and 90 cells of runs within one element (white space in the start tag x endless content; valid content \
         of 1/2 or 9/10 of the limit x white space in the end tag / endless comments) deterministically. evaluations = parses/writes executed; \
         distinct = distinct hash of (document bytes or prefix, fault kind, fault offset, chunk size) \
         counted in a bitmap (lower bound); a run is non-trivial if a library writer or parser ran."
    }

    fn components(&self) -> (Vec<&'static str>, Vec<&'static str>) {
        (
            vec![
                "rpki::rrdp::{NotificationFile,Snapshot,Delta}::{write_xml,parse}, NotificationFile::{parse_limited,sort_and_verify_deltas,has_matching_origins}",
                "rpki::rrdp::{ProcessSnapshot,ProcessDelta}::process, ObjectReader",
                "rpki::xml::encode::{Writer,Element(Drop),Content,TextEscape}, rpki::xml::decode::{Reader,Content,BufReadCounter}",
                "rpki::util::base64::Xml reader/writer, quick-xml 0.39, base64 0.22 EncoderWriter/DecoderReader",
            ],
            vec![
                "SimWrite (short writes, EINTR, one-shot and sticky errors by call index)",
                "SimBufRead (chunking down to 1 byte, EINTR, hard error at offset, lazily generated endless hostile streams, bytes-pulled monitor)",
                "storage damage injector (bit flips, overwritten / lost / duplicated ranges, spliced markup) with a chunking-differential oracle",
                "recording ProcessSnapshot/ProcessDelta implementation reading object data in tape-chosen sizes",
                "thread-local counting allocator (peak heap per hostile case)",
            ],
        )
    }

    fn assumptions(&self) -> Vec<&'static str> {
        vec![
            "read bound checked: pulled <= L0 + limit + max(chunk, 64 KiB) (one buffer), limit = the constant in force at the hostile position (1 MB root/notification, 100 MB after a snapshot/delta root start tag)",
            "an endless list of individually small valid sibling elements is not a hostile kind: it has no offending element and the statement sets no bound for it; an endless run of short comments IS treated as hostile (comments are not elements, so nothing may re-arm the per-element counter)",
            "deliberate strengthening: a truncated library-written document must never parse as a *different* value (a proper prefix of such a document is never well-formed XML, so only a parser that gives up well-formedness could do that)",
            "short-writing sinks are only used for documents without base64 object data: base64::EncoderWriter legitimately returns Ok(0) while draining, which std's write_all reports as WriteZero (a robustness gap outside the statement, documented in DESIGN.md)",
            "the heap bound (16 x (limit + chunk) + 4 MiB) is deliberately coarse; the byte monitor is the exact bound",
            "the sort_and_verify_deltas / has_matching_origins sub-clauses are pure; they ride along on the generated notification values",
        ]
    }

    fn vacuous(&self, totals: &Counters) -> Option<String> {
        if totals.get("probe_header_limit_tripped") == 0 {
            return Some("no hostile stream ever tripped the header limit".into());
        }
        if totals.get("probe_file_limit_tripped") == 0 {
            return Some("no stream ever tripped the 100 MB file limit".into());
        }
        if totals.get("probe_valid_element_just_below_file_limit") == 0
            || totals.get("probe_valid_document_larger_than_file_limit") == 0
            || totals.get("probe_valid_delta_elements_just_below_file_limit") == 0
        {
            return Some("the limits were never approached from the valid side".into());
        }
        if totals.get("probe_two_runs_second_run_reached") == 0 {
            return Some("no stream with two runs in one element ever got past its first run".into());
        }
        None
    }
}
