#!/bin/bash
# Applies a seeded change to /repo, runs the given checks against it, and
# undoes it straight afterwards (also on error / interrupt).
#
#   tools/run_seeded.sh <seeded-dir> <tier> <id> [<id>...]
#
# Evidence files are not touched (--no-evidence); replay files of the
# violations found are moved next to the seeded change.
set -u
dir=$(realpath "$1"); tier=$2; shift 2
cd /verif
if ! git -C /repo diff --quiet || ! git -C /repo diff --cached --quiet; then
  echo "refusing: /repo has uncommitted changes"; exit 2
fi
cleanup() { git -C /repo checkout -- . ; }
trap cleanup EXIT INT TERM
git -C /repo apply "$dir/patch.diff" || { echo "patch does not apply"; exit 2; }
cargo build --release --offline --manifest-path sim/Cargo.toml 2>&1 | grep -E "^(error|warning: unused)" -A8 | head -30
out="$dir/check-output.txt"
: > "$out"
caught=""
for id in "$@"; do
  ./target/release/rpki-sim check "$id" --tier "$tier" --no-evidence > /tmp/seeded-run.$$ 2>&1
  code=$?
  grep -E "^(violation in run|  =>|VIOLATION|KNOWN|C0|HARNESS)" /tmp/seeded-run.$$ | tee -a "$out"
  echo "check $id exit=$code" | tee -a "$out"
  if [ $code -eq 1 ]; then caught="$caught $id"; fi
  for f in replays/${id}-*.json; do [ -e "$f" ] && mv "$f" "$dir/"; done
done
rm -f /tmp/seeded-run.$$
echo "CAUGHT-BY:${caught:- none}" | tee -a "$out"
