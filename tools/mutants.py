#!/usr/bin/env python3
"""Systematic sensitivity measurement: text-level mutation operators applied
one at a time to the library files behind the claimed properties, each mutant
built and run against the quick checks (reduced run counts).

Works on private copies so that /repo and /verif are never touched:
  /tmp/mutrepo  - git worktree of /repo HEAD
  /tmp/mutsim   - copy of /verif/sim with its rpki dependency pointing at /tmp/mutrepo

usage: tools/mutants.py [--files f1,f2] [--limit N] [--out results.jsonl]
Results (one JSON object per mutant) are appended to the output file; survivors
are what needs triage (equivalent mutant or blind spot).
"""
import json, os, re, shutil, subprocess, sys, time

REPO = "/tmp/mutrepo"
SIM = "/tmp/mutsim"
VDIR = "/tmp/mutsim-verif"

TARGETS = {
    "src/rtr/server.rs": (["C08", "C06"], 0, 10**9),
    "src/rtr/client.rs": (["C06"], 0, 10**9),
    "src/rtr/pdu.rs": (["C07", "C06", "C08"], 0, 1790),
    "src/rtr/payload.rs": (["C06", "C07"], 0, 10**9),
    "src/rtr/state.rs": (["C06"], 0, 200),
    "src/xml/decode.rs": (["C09"], 0, 10**9),
    "src/xml/encode.rs": (["C09"], 0, 494),
    "src/rrdp.rs": (["C09"], 0, 1636),
    "src/util/base64.rs": (["C09"], 0, 236),
    # second campaign: files the claimed properties reach through the anchored ones;
    # the pinned suite has unit tests for these, so mutants are first run against it
    "src/resources/addr.rs": (["C07", "C06"], 0, 906),
    "src/resources/asn.rs": (["C07", "C06"], 0, 539),
    "src/uri.rs": (["C09"], 0, 1046),
}
SUITE_FILES = {"src/resources/addr.rs", "src/resources/asn.rs", "src/uri.rs"}
RUNS = {"C06": "150000", "C07": "500", "C08": "300000", "C09": "6000"}

OPS = [
    (r" >= ", " > "), (r" > ", " >= "), (r" <= ", " < "), (r" < ", " <= "),
    (r" == ", " != "), (r" != ", " == "),
    (r" && ", " || "), (r" \|\| ", " && "),
    (r"\+ 1\b", "+ 2"), (r"- 1\b", "- 0"),
    (r"\.min\(", ".max("), (r"\.max\(", ".min("),
    (r"if !", "if "),
    (r"\btrue\b", "false"), (r"\bfalse\b", "true"),
    (r"\.is_some\(\)", ".is_none()"), (r"\.is_none\(\)", ".is_some()"),
    (r"\.is_empty\(\)", ".len() == 1"),
    (r"Some\(header\.version\(\)\)", "Some(0)"),
    (r"\bread_exact\(", "read("),
    (r"\bwrite_all\(", "write("),
    (r"Action::Announce", "Action::Withdraw"), (r"Action::Withdraw", "Action::Announce"),
    (r"flags & 1 == 1", "flags & 2 == 2"),
    (r"1_000_000\b", "10_000_000"), (r"100_000_000\b", "1_000_000_000"),
    (r"\b1024\b", "7"),
    (r"to_be\(\)", "to_le()"), (r"from_be\(", "from_le("),
    (r"\bu32::from_be_bytes", "u32::from_le_bytes"), (r"to_be_bytes\(\)", "to_le_bytes()"),
    (r"\.saturating_add\(", ".wrapping_sub("),
    (r"MAX_VERSION", "1"),
]
# whole-line deletions of simple statements (state updates, flushes, resets)
DELETE = re.compile(r"^\s*(self\.[a-z_\.]+ (=|\+=) .*;|self\.sock\.flush\(\)\.await\?;|reader\.reset_and_limit\(limit\);|self\.reset_and_limit\(limit\);|self\.writer\.(in|de)dent\(\);|self\.empty = true;)\s*$")


def sh(cmd, **kw):
    return subprocess.run(cmd, shell=True, capture_output=True, text=True, **kw)


def setup():
    if not os.path.isdir(REPO):
        r = sh(f"git -C /repo worktree add -q --detach {REPO} HEAD")
        assert r.returncode == 0, r.stderr
    sh(f"git -C {REPO} checkout -q -- .")
    shutil.rmtree(SIM, ignore_errors=True)
    os.makedirs(SIM + "/.cargo")
    shutil.copytree("/verif/sim/src", SIM + "/src")
    shutil.copy("/verif/sim/Cargo.lock", SIM + "/Cargo.lock")
    toml = open("/verif/sim/Cargo.toml").read().replace('path = "/repo"', f'path = "{REPO}"')
    open(SIM + "/Cargo.toml", "w").write(toml)
    open(SIM + "/.cargo/config.toml", "w").write('[net]\noffline = true\n[build]\ntarget-dir = "target"\n')
    os.makedirs(VDIR, exist_ok=True)
    shutil.copy("/verif/known_findings.txt", VDIR + "/known_findings.txt")


def build():
    r = sh("cargo build --release --offline 2>&1 | tail -30", cwd=SIM)
    ok = "Finished" in r.stdout and "error" not in r.stdout.split("Finished")[0][-2000:]
    return ok, r.stdout[-1500:]


def suite_passes():
    r = sh("cargo test --workspace --no-fail-fast --offline 2>&1 | grep -E '^test result' | head -1", cwd=REPO,
           env=dict(os.environ, CARGO_TARGET_DIR=REPO + "/target"))
    return " 0 failed" in r.stdout and "35 passed" in r.stdout


def check(ids):
    killed_by = []
    detail = []
    for pid in ids:
        r = sh(
            f"VERIF_DIR={VDIR} timeout 600 {SIM}/target/release/rpki-sim check {pid} --tier quick --no-evidence --runs {RUNS[pid]}",
            cwd=SIM,
        )
        viol = [l for l in r.stdout.splitlines() if l.startswith("violation in run") or l.startswith("HARNESS") or l.startswith("  =>")]
        if r.returncode != 0:
            killed_by.append(pid)
            detail.append(f"{pid}: exit {r.returncode}: " + (viol[0][:200] if viol else (r.stderr[-200:] or "timeout?")))
            break  # one kill is enough
    shutil.rmtree(VDIR + "/replays", ignore_errors=True)
    return killed_by, detail


def mutants_for(path, lo, hi):
    lines = open(os.path.join(REPO, path)).read().split("\n")
    in_block_comment = False
    for i, line in enumerate(lines):
        ln = i + 1
        if ln < lo or ln > hi:
            continue
        stripped = line.strip()
        if stripped.startswith("//") or stripped.startswith("#[") or not stripped:
            continue
        if "debug!(" in line or "info!(" in line or "concat!(" in line or stripped.startswith('"'):
            continue
        code = line.split("//")[0]
        for pat, rep in OPS:
            for m in re.finditer(pat, code):
                new = line[: m.start()] + re.sub(pat, rep, line[m.start() : m.end()], count=1) + line[m.end() :]
                if new != line:
                    yield ln, f"{pat} -> {rep}", line, new
        if DELETE.match(line):
            yield ln, "delete statement", line, "// " + line.strip()


def main():
    args = sys.argv[1:]
    files = list(TARGETS)
    limit = None
    out = "/verif/seeded/mutation-campaign.jsonl"
    stride = 1
    only = None
    for i, a in enumerate(args):
        if a == "--only-survivors":
            only = set()
            for l in open(args[i + 1]):
                j = json.loads(l)
                if j["status"] == "SURVIVED":
                    only.add((j["file"], j["line"], j["op"], j["col_src"]))
        if a == "--files":
            files = args[i + 1].split(",")
        if a == "--limit":
            limit = int(args[i + 1])
        if a == "--out":
            out = args[i + 1]
        if a == "--stride":
            stride = int(args[i + 1])
    setup()
    ok, msg = build()
    assert ok, "baseline build failed: " + msg
    kb, det = check(["C06", "C07", "C08", "C09"])
    assert not kb, "baseline is not clean: " + str(det)
    done = set()
    if os.path.exists(out):
        for l in open(out):
            try:
                j = json.loads(l)
                done.add((j["file"], j["line"], j["op"], j["col_src"]))
            except Exception:
                pass
    n = 0
    for path in files:
        ids, lo, hi = TARGETS[path]
        full = os.path.join(REPO, path)
        orig = open(full).read()
        all_m = list(mutants_for(path, lo, hi))
        for k, (ln, op, old, new) in enumerate(all_m):
            if k % stride != 0:
                continue
            key = (path, ln, op, old.strip()[:60])
            if key in done:
                continue
            if only is not None and key not in only:
                continue
            if limit is not None and n >= limit:
                return
            n += 1
            lines = orig.split("\n")
            lines[ln - 1] = new
            open(full, "w").write("\n".join(lines))
            t0 = time.time()
            ok, msg = build()
            rec = {"file": path, "line": ln, "op": op, "col_src": old.strip()[:60], "mutated": new.strip()[:120]}
            if not ok:
                rec["status"] = "does-not-compile"
            elif path in SUITE_FILES and not suite_passes():
                rec["status"] = "killed-by-existing-tests"
            else:
                kb, det = check(ids)
                rec["status"] = "killed" if kb else "SURVIVED"
                rec["killed_by"] = kb
                rec["detail"] = det
            rec["secs"] = round(time.time() - t0, 1)
            open(out, "a").write(json.dumps(rec) + "\n")
            print(json.dumps(rec), flush=True)
            open(full, "w").write(orig)
    sh(f"git -C {REPO} checkout -q -- .")


if __name__ == "__main__":
    main()
