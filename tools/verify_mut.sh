#!/bin/bash
# Independently confirms a mutation delivered by a sub-agent in its scratch worktree:
#   verify_mut.sh <worktree> <outdir>/<i>
# (1) patch applies, (2) crate builds with rtr,rrdp,crypto, (3) existing suite passes,
# (4) demo fails with the patch, (5) demo passes without it. Leaves the worktree clean.
set -u
wt=$1; d=$2
export CARGO_TARGET_DIR=$wt/target CARGO_NET_OFFLINE=true
git -C $wt checkout -q -- . ; git -C $wt status --short | grep -v '^??' | head -3
demo_cmd() { (cd $d/demo && if [ -d tests ] || grep -q '\[\[test\]\]\|#\[test\]\|#\[tokio::test\]' -r src tests 2>/dev/null; then cargo test --offline 2>&1; else cargo run --offline 2>&1; fi); }
git -C $wt apply $d/patch.diff || { echo "RESULT: patch does not apply"; exit 1; }
(cd $wt && cargo build --offline --features rtr,rrdp,crypto 2>&1 | tail -1)
suite=$(cd $wt && cargo test --workspace --no-fail-fast --offline 2>&1 | grep -E "^test result" | head -1)
echo "suite with mutation: $suite"
demo_cmd > /tmp/demo-with.$$ ; with=$?
tail -4 /tmp/demo-with.$$
git -C $wt checkout -q -- .
demo_cmd > /tmp/demo-without.$$ ; without=$?
tail -2 /tmp/demo-without.$$
echo "RESULT: demo exit with mutation=$with (want non-zero), without=$without (want 0); $suite"
rm -f /tmp/demo-with.$$ /tmp/demo-without.$$
