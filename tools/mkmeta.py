#!/usr/bin/env python3
"""mkmeta.py <seeded-dir> <property> <round> <origin-kind> <needs text> [--expected-miss note]
Writes meta.json from verify.txt and check-output.txt of an intake."""
import json, sys, re, os
d, pid, rnd, kind, needs = sys.argv[1:6]
extra = sys.argv[6:]
out = open(os.path.join(d, 'check-output.txt')).read() if os.path.exists(os.path.join(d, 'check-output.txt')) else ''
ver = open(os.path.join(d, 'verify.txt')).read().strip() if os.path.exists(os.path.join(d, 'verify.txt')) else ''
caught = re.findall(r'C\d\d', (re.findall(r'CAUGHT-BY:(.*)', out) or [''])[-1])
classes = sorted(set(m.split(':')[0] + (':' + m.split(':')[1] if ':' in m and not m.split(':')[1].startswith(' ') else '') for m in re.findall(r'  => ([a-z\-]+(?::[A-Za-z0-9/\-_]+)?)', out)))
ran = 'tools/run_seeded_scratch.sh %s quick %s' % (d.rstrip('/'), ' '.join(re.findall(r'check (C\d\d) exit', out)))
origins = {
 'naive': 'independent sub-agent given only the property text, a focus hint and a scratch worktree (no knowledge of earlier rounds)',
 'informed': 'independent sub-agent given the property text, a description of every earlier seeded change of that property and a scratch worktree',
 'self': 'written by me as a sensitivity probe',
 'benign': 'independent sub-agent asked for a change that keeps the property',
}
m = {'id': os.path.basename(d.rstrip('/')), 'property': pid, 'round': int(rnd), 'origin': origins.get(kind, kind),
     'needs_to_manifest': needs,
     'confirmed': ver or 'applies to /repo HEAD, builds, existing suite passes (self-made, no separate demo)',
     'ran': ran, 'caught_by': caught, 'violation_classes': classes}
if extra and extra[0] == '--expected-miss':
    m['expected_miss'] = True; m['note'] = extra[1]
elif extra and extra[0] == '--note':
    m['note'] = extra[1]
json.dump(m, open(os.path.join(d, 'meta.json'), 'w'), indent=1)
print(m['id'], 'caught_by', caught, classes)
