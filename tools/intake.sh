#!/bin/bash
# Takes in what a seeding sub-agent delivered: tools/intake.sh <tag> <property> <ids to run...>
# For i in 1..3: re-confirms the change in the agent's worktree (verify_mut.sh), copies it to
# seeded/<property>-<tag>m<i>/ and runs the given checks against it in the scratch place.
tag=$1; pid=$2; shift 2
for i in 1 2 3; do
  src=/tmp/$tag-$pid-out/$i
  [ -f $src/patch.diff ] || { echo "== $pid-${tag}m$i: nothing delivered"; continue; }
  dst=/verif/seeded/$pid-${tag}m$i
  echo "== $pid-${tag}m$i"
  /verif/tools/verify_mut.sh /tmp/$tag-$pid $src 2>&1 | grep RESULT | tee /tmp/intake-verify.$$
  mkdir -p $dst; cp $src/patch.diff $dst/; cp $src/notes.md $dst/ 2>/dev/null
  rm -rf $dst/demo; cp -r $src/demo $dst/demo 2>/dev/null; rm -rf $dst/demo/target
  cp /tmp/intake-verify.$$ $dst/verify.txt; rm -f /tmp/intake-verify.$$
  /verif/tools/run_seeded_scratch.sh $dst quick "$@" 2>&1 | grep -E "^(  =>|CAUGHT-BY)" | cut -c1-400
done
