#!/usr/bin/env python3
"""Builds the prompt for a mutation-seeding sub-agent.

  mkprompt.py <round-tag> <property> naive|informed [focus-key]

naive:    only the property text (like round 1) plus an optional focus hint.
informed: additionally lists what every earlier seeded change for that property needed
          (taken from the meta.json files under seeded/), and asks for different mechanisms.
Writes seeded/prompts/prompt-<round-tag>-<mode>-<property>.txt and prints its path.
"""
import json, sys, glob, os, re
tag, pid, mode = sys.argv[1:4]
focus = sys.argv[4] if len(sys.argv) > 4 else None
V = '/verif'
props = {json.loads(l)['id']: json.loads(l) for l in open(f'{V}/properties.jsonl')}
p = props[pid]
wt = f'/tmp/{tag}-{pid}'
FOCI = {
 'schedule': "At least two of the three must need a particular INTERLEAVING or ARRIVAL PATTERN to manifest (where a read or write boundary falls, which of two events is seen first, what happens while a peer is blocked, a cancelled or re-polled future, a wake-up that is or is not delivered), not merely a particular input value.",
 'fault': "At least two of the three must need a FAULT at a particular point to manifest (end of stream, an I/O error, an interrupted or short read/write, a timeout, a peer that stalls or disappears, an error raised inside a destructor or clean-up path) and must lead to a wrong SUCCESS or a hang/panic rather than to an ordinary error.",
 'history': "At least two of the three must need a MULTI-STEP HISTORY to manifest (state left behind by an earlier operation and used by a later one, a second exchange on the same connection or object, a reconnect, a value that wraps or is reused, two code sites that each look fine alone).",
 'cooperating': "At least two of the three must consist of TWO COOPERATING EDITS in different functions (or different files) that each look harmless on their own - a value computed in one place and interpreted slightly differently in another, a check moved from a callee to only some of its callers, a default changed here and relied upon there, state initialised in a constructor and assumed elsewhere - so that a reviewer reading either hunk alone would approve it.",
 'free': "No particular focus this round: pick whatever you judge most likely to slip past a careful reviewer AND past a test harness that already exercises the obvious paths with random fragmentation, random faults and random values. Think about code the main files call in OTHER modules, about rarely used public entry points, and about conditions that need three or more things to coincide.",
 'commit': "This round the three changes should look like REAL COMMITS rather than point mutations: each implements a plausible improvement a maintainer might merge (a refactoring that removes duplication, a hardening against huge inputs, a small performance optimisation, better error messages, RFC conformance tightening, a new helper used in several places) of roughly 30-120 changed lines across one or more functions - and somewhere inside that improvement sits a subtle defect that breaks the property under specific circumstances. The defect must not be the point of the commit; a reviewer skimming the diff should see a reasonable change.",
 'multi': "This round the three changes should look like REAL COMMITS (a refactoring, a hardening, a small optimisation, a new helper - roughly 30-120 changed lines with the defect hidden inside a reasonable change), and at least two of the three must need MORE THAN ONE PARTY OR MORE THAN ONE ROUND to manifest: two connections to the same server that are busy at the same time (state that a change accidentally shares between connections, a resource one connection holds while another needs it, a notification reaching several connections), several clients, a client that is kept running across several updates through its long-running entry point rather than single steps, something left behind by one exchange that only matters in a later one.",
 'sizes': "This round the three changes should look like REAL COMMITS (a refactoring, a hardening, a small optimisation, a new helper - roughly 30-120 changed lines with the defect hidden inside a reasonable change), and at least two of the three must need a RARE BUT LEGAL SIZE OR COUNT to manifest: values in the kilobyte to hundred-kilobyte range where most are a few dozen octets (a very long URI, text, name or key, very many elements or items), sizes that straddle an internal buffer or chunk size the change introduces, counts around 2^8/2^16, many small pieces arriving back to back.",
 'boundary': "At least two of the three must need an UNUSUAL BUT VALID value to manifest (sizes and counts at 0, 1, 2^8, 2^16, 2^32 boundaries, longest/shortest legal forms, rarely used variants, a legal but rarely used spelling) together with a particular path through the code.",
}
out = []
out.append(f"You are helping to evaluate a verification effort by seeding realistic bugs. You work ONLY inside the scratch git worktree {wt} (a checkout of the Rust library NLnetLabs/rpki-rs: parsing/validating/creating RPKI objects, plus RTR and RRDP protocol code). Do not read or touch anything under /verif or /repo. The sandbox has no network; always pass --offline to cargo (e.g. `cargo test --offline ...`). Useful features: the RTR code needs `--features rtr,crypto`, RRDP needs `--features rrdp`. The crate's existing test suite is run with: `cargo test --workspace --no-fail-fast --offline` (35 tests, default features).")
out.append("")
out.append("Here is a semantic property that the library is supposed to satisfy:")
out.append("")
out.append(f"  Title: {p['title']}")
out.append(f"  Statement: {p['statement']}")
out.append(f"  Quantifier: {p['quantifier']['text']}")
out.append(f"  Main files: {', '.join(p['anchors']['files'])}")
out.append("")
if mode == 'informed':
    items = []
    for d in sorted(glob.glob(f'{V}/seeded/*/meta.json')):
        m = json.load(open(d))
        name = os.path.basename(os.path.dirname(d))
        if 'benign' in name: continue
        if m.get('property') != pid and not name.startswith(pid) and not name.startswith('self-'+pid): continue
        n = m.get('needs_to_manifest') or m.get('needs') or ''
        if n: items.append(n.strip())
    out.append("Many rounds of such seeding have already been done. The list below describes every change used so far (what each needed in order to manifest and what was changed). Do NOT repeat any of them or close variants:")
    for i in items: out.append("  - " + re.sub(r'\s+', ' ', i))
    out.append("")
    out.append("Find THREE new ones that differ from everything in that list in mechanism, code region or triggering condition. The earlier rounds have covered the obvious places, so be systematic: list for yourself every public function, trait method and type in the main files that the property statement touches, cross off those the list above has already attacked, and aim at what is left (rarely used public entry points and constructors, Default/From/TryFrom impls, Display/FromStr pairs used on the covered paths, iterator and accessor methods of the covered types, behaviour of trait default methods, helper functions shared with other modules, code in OTHER files that the main files call). Also consider combinations: an earlier-attacked function with a DIFFERENT trigger (another protocol version, another payload kind, another element kind, another position in the sequence, sizes around 2^16 or 2^32, zero-length and single-element cases, two connections or two objects at once). Prefer small diffs a reviewer would approve. Each must be a genuine violation of the property as stated above, must compile, and must keep the existing test suite green.")
    out.append("")
if focus:
    out.append("Focus for this round: " + FOCI[focus])
    out.append("")
out.append(f"YOUR TASK: produce THREE independent, realistic code changes (\"mutations\") to the library source under {wt}/src, each of which BREAKS this property while the crate still compiles (at least `cargo build --offline --features rtr,rrdp,crypto` must succeed) and the existing test suite still passes unchanged (`cargo test --workspace --no-fail-fast --offline`). Each mutation should look like something a developer could plausibly write (a refactoring slip, a wrong boundary, a dropped check, a reordered statement, a state update at the wrong time, a cancel-safety mistake, two sites that each look fine alone), and - IMPORTANT - it should need something SPECIFIC to manifest: a particular interleaving or arrival pattern of bytes, a fault/EOF/error at a particular point, a multi-step sequence of operations, an unusual (boundary) input, or two cooperating sites. Do NOT produce mutations that any ordinary use would expose at once (e.g. making every call fail). Each must be a genuine violation of the property AS STATED (not merely of something nearby that the statement leaves open). Make the three mutations different in kind and in the code region they touch.")
out.append("")
out.append(f"For EACH mutation i in 1..3 deliver, under {wt}-out/<i>/ :")
out.append(f"  - patch.diff : `git diff` of the mutation against the worktree's HEAD (only files under src/; must apply cleanly with `git apply` on a clean checkout of the same commit)")
out.append(f"  - a demonstration: a self-contained Rust test or small program (put it in {wt}-out/<i>/demo/ as a tiny cargo project with a path dependency on {wt}, with `[workspace]` in its Cargo.toml, a copy of {wt}/Cargo.lock next to it, and built with --offline; tokio with features rt,macros,io-util,time,sync,test-util may be used as a dependency since it is in the offline cargo cache, as are futures-util, bytes, uuid) that FAILS (non-zero exit / failing assertion) when the mutation is applied and PASSES on the unmodified worktree. State the exact command to run it.")
out.append("  - notes.md : which part of the property it breaks, what exactly is needed for it to manifest, and the commands you ran (including the result of the existing test suite with the mutation applied).")
out.append("")
out.append(f"Procedure for each mutation: start from a clean worktree (`git -C {wt} checkout -- . && git -C {wt} status`), apply your edit, confirm build + existing tests pass, run the demo (fails), save patch.diff, then REVERT the worktree (`git -C {wt} checkout -- .`) and confirm the demo passes on the clean tree. Leave the worktree clean at the end. To save disk and time set CARGO_TARGET_DIR={wt}/target for everything (demo projects too). Be efficient: the first build compiles aws-lc-sys and takes about a minute.")
out.append("")
out.append("Finish with a short summary listing the three mutations (one line each: files touched, what is needed to manifest) and whether each was fully confirmed (compiles, existing tests pass, demo fails with / passes without).")
path = f'{V}/seeded/prompts/prompt-{tag}-{mode}-{pid}.txt'
open(path, 'w').write('\n'.join(out) + '\n')
print(path)
