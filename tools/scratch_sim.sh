#!/bin/bash
# Builds the current /verif/sim sources against a clean checkout of /repo HEAD
# in a scratch place (/tmp/scr-repo, /tmp/scr-sim), so that harness changes can
# be tried while /repo's working tree is busy (e.g. a seeded-change regression
# is running). usage: tools/scratch_sim.sh [patch.diff] -- <rpki-sim args>
set -e
patch=""
if [ "$1" != "--" ]; then patch="$1"; shift; fi
shift
[ -d /tmp/scr-repo ] || git -C /repo worktree add -q --detach /tmp/scr-repo HEAD
git -C /tmp/scr-repo checkout -q -- .
[ -n "$patch" ] && git -C /tmp/scr-repo apply "$patch"
mkdir -p /tmp/scr-sim/.cargo /tmp/scr-verif
[ -n "$SCR_NOSYNC" ] || rsync -a --delete /verif/sim/src/ /tmp/scr-sim/src/
cp /verif/sim/Cargo.lock /tmp/scr-sim/Cargo.lock
sed 's#path = "/repo"#path = "/tmp/scr-repo"#' /verif/sim/Cargo.toml > /tmp/scr-sim/Cargo.toml
printf '[net]\noffline = true\n[build]\ntarget-dir = "target"\n' > /tmp/scr-sim/.cargo/config.toml
cp /verif/known_findings.txt /tmp/scr-verif/
(cd /tmp/scr-sim && cargo build --release --offline 2>&1 | grep -E "^(error|warning: unus)" -A 8 | head -40; true)
cd /tmp/scr-sim && VERIF_DIR=/tmp/scr-verif ./target/release/rpki-sim "$@"
rc=$?
git -C /tmp/scr-repo checkout -q -- .
exit $rc
