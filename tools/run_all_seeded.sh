#!/bin/bash
# Re-runs every seeded change against the checks named in its meta.json and
# reports whether the outcome still matches (mutations caught, benign changes quiet).
cd /verif
fail=0
# one snapshot of the harness sources for the whole regression
export SCR=${SCR:-/tmp/scrall}
mkdir -p $SCR-sim/src; rsync -a --delete /verif/sim/src/ $SCR-sim/src/; export SCR_NOSYNC=1
for d in seeded/*/; do
  name=$(basename $d)
  if [ -n "${FILTER:-}" ] && ! echo "$name" | grep -Eq "$FILTER"; then continue; fi
  [ -f $d/patch.diff ] || continue
  [ -f $d/meta.json ] || continue
  ids=$(python3 -c "
import json,re,sys
m=json.load(open('$d/meta.json'))
ran=m.get('ran','')
print(' '.join(re.findall(r'C\d\d', ran.split('quick')[-1])))")
  benign=$(python3 -c "import json;print('1' if 'benign' in '$name' else '0')")
  expected_miss=$(python3 -c "import json;print('1' if json.load(open('$d/meta.json')).get('expected_miss') else '0')")
  out=$(SCR=${SCR:-/tmp/scrall} tools/run_seeded_scratch.sh $d quick $ids 2>&1 | grep -E "CAUGHT-BY" | tail -1)
  caught=$(echo "$out" | sed 's/CAUGHT-BY://')
  if [ "$benign" = "1" ]; then
    if echo "$caught" | grep -q none; then echo "ok    $name (benign, no alarm)"; else echo "ALARM $name:$caught"; fail=1; fi
  else
    if [ "$expected_miss" = "1" ]; then
      if echo "$caught" | grep -q none; then echo "ok    $name (recorded as out of reach, see its meta.json)"; else echo "NOTE  $name is now caught by$caught"; fi
    elif echo "$caught" | grep -q none; then echo "MISS  $name"; fail=1; else echo "ok    $name caught by$caught"; fi
  fi
done
exit $fail
