#!/bin/bash
# Like run_seeded.sh, but never touches /repo: the change is applied to a scratch
# worktree of /repo HEAD (/tmp/scr-repo) and the current /verif/sim sources are built
# against it in /tmp/scr-sim. Safe to use while background runs or vp check use /repo.
#
#   tools/run_seeded_scratch.sh <seeded-dir> <tier> <id> [<id>...]
set -u
dir=$(realpath "$1"); tier=$2; shift 2
exec 9>/tmp/scr.lock; flock 9
[ -d /tmp/scr-repo ] || git -C /repo worktree add -q --detach /tmp/scr-repo HEAD
git -C /tmp/scr-repo checkout -q --detach $(git -C /repo rev-parse HEAD) 2>/dev/null
git -C /tmp/scr-repo checkout -q -- .
git -C /tmp/scr-repo apply "$dir/patch.diff" || { echo "patch does not apply"; exit 2; }
mkdir -p /tmp/scr-sim/.cargo /tmp/scr-verif
rsync -a --delete /verif/sim/src/ /tmp/scr-sim/src/
cp /verif/sim/Cargo.lock /tmp/scr-sim/Cargo.lock
sed 's#path = "/repo"#path = "/tmp/scr-repo"#' /verif/sim/Cargo.toml > /tmp/scr-sim/Cargo.toml
printf '[net]\noffline = true\n[build]\ntarget-dir = "target"\n' > /tmp/scr-sim/.cargo/config.toml
cp /verif/known_findings.txt /tmp/scr-verif/
(cd /tmp/scr-sim && cargo build --release --offline > /tmp/scr-build.log 2>&1) || { grep -E "^error" -A 8 /tmp/scr-build.log | head -40; echo "BUILD FAILED"; git -C /tmp/scr-repo checkout -q -- .; exit 2; }
out="$dir/check-output.txt"; : > "$out"; caught=""
for id in "$@"; do
  (cd /tmp/scr-sim && VERIF_DIR=/tmp/scr-verif ./target/release/rpki-sim check "$id" --tier "$tier" --no-evidence) > /tmp/scr-run.$$ 2>&1
  code=$?
  grep -E "^(violation in run|  =>|VIOLATION|KNOWN|C0|HARNESS)" /tmp/scr-run.$$ | tee -a "$out"
  echo "check $id exit=$code" | tee -a "$out"
  [ $code -eq 1 ] && caught="$caught $id"
  mkdir -p "$dir/replays"
  for f in /tmp/scr-verif/replays/${id}-*.json; do [ -e "$f" ] && mv "$f" "$dir/replays/"; done
done
rmdir "$dir/replays" 2>/dev/null
rm -f /tmp/scr-run.$$
git -C /tmp/scr-repo checkout -q -- .
echo "CAUGHT-BY:${caught:- none}" | tee -a "$out"
