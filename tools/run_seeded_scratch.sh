#!/bin/bash
# Like run_seeded.sh, but never touches /repo: the change is applied to a scratch
# worktree of /repo HEAD ($SCR-repo) and the current /verif/sim sources are built
# against it in $SCR-sim. Safe to use while background runs or vp check use /repo.
#
#   tools/run_seeded_scratch.sh <seeded-dir> <tier> <id> [<id>...]
set -u
dir=$(realpath "$1"); tier=$2; shift 2
SCR=${SCR:-/tmp/scr}
exec 9>$SCR.lock; flock 9
[ -d $SCR-repo ] || git -C /repo worktree add -q --detach $SCR-repo HEAD
git -C $SCR-repo checkout -q --detach $(git -C /repo rev-parse HEAD) 2>/dev/null
git -C $SCR-repo checkout -q -- .
git -C $SCR-repo apply "$dir/patch.diff" || { echo "patch does not apply"; exit 2; }
mkdir -p $SCR-sim/.cargo $SCR-verif
[ -n "${SCR_NOSYNC:-}" ] || rsync -a --delete /verif/sim/src/ $SCR-sim/src/
cp /verif/sim/Cargo.lock $SCR-sim/Cargo.lock
sed "s#path = \"/repo\"#path = \"$SCR-repo\"#" /verif/sim/Cargo.toml > $SCR-sim/Cargo.toml
printf '[net]\noffline = true\n[build]\ntarget-dir = "target"\n' > $SCR-sim/.cargo/config.toml
cp /verif/known_findings.txt $SCR-verif/
(cd $SCR-sim && cargo build --release --offline > $SCR-build.log 2>&1) || { grep -E "^error" -A 8 $SCR-build.log | head -40; echo "BUILD FAILED"; git -C $SCR-repo checkout -q -- .; exit 2; }
out="$dir/check-output.txt"; : > "$out"; caught=""
for id in "$@"; do
  (cd $SCR-sim && VERIF_DIR=$SCR-verif ./target/release/rpki-sim check "$id" --tier "$tier" --no-evidence) > $SCR-run.$$ 2>&1
  code=$?
  grep -E "^(violation in run|  =>|VIOLATION|KNOWN|C0|HARNESS)" $SCR-run.$$ | tee -a "$out"
  echo "check $id exit=$code" | tee -a "$out"
  [ $code -eq 1 ] && caught="$caught $id"
  mkdir -p "$dir/replays"
  for f in $SCR-verif/replays/${id}-*.json; do [ -e "$f" ] && mv "$f" "$dir/replays/"; done
done
rmdir "$dir/replays" 2>/dev/null
rm -f $SCR-run.$$
git -C $SCR-repo checkout -q -- .
echo "CAUGHT-BY:${caught:- none}" | tee -a "$out"
