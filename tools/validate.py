import json,sys,jsonschema
m=json.load(open('/verif/MANIFEST.json'))
jsonschema.validate(m,json.load(open('/root/.vp/MANIFEST.schema.json')))
es=json.load(open('/root/.vp/EVIDENCE.schema.json'))
import glob
for f in glob.glob('/verif/evidence/*.json'):
    jsonschema.validate(json.load(open(f)),es); print('ok',f)
print('manifest ok')
